//! One `ExternalSatSolver` call executed in a sub-process of the shard, so that a call that never
//! returns can be observed from outside (deadlock witness read from /proc) instead of hanging the shard.

use serde_json::{json, Value};
use std::path::Path;
use std::process::{Command, Stdio};
use std::time::{Duration, Instant};

#[derive(Clone, Debug)]
pub struct ExtSpec {
    pub program: String,
    pub options: Vec<String>,
    pub clauses: Vec<Vec<isize>>,
    pub reserve: Option<usize>,
    pub assumptions: Vec<isize>,
}

impl ExtSpec {
    pub fn to_json(&self) -> Value {
        json!({"program": self.program, "options": self.options, "clauses": self.clauses,
               "reserve": self.reserve, "assumptions": self.assumptions})
    }
    pub fn from_json(v: &Value) -> Option<ExtSpec> {
        let ints = |a: &Value| -> Option<Vec<isize>> {
            a.as_array()?.iter().map(|x| x.as_i64().map(|x| x as isize)).collect()
        };
        Some(ExtSpec {
            program: v.get("program")?.as_str()?.to_string(),
            options: v
                .get("options")?
                .as_array()?
                .iter()
                .map(|x| x.as_str().map(|s| s.to_string()))
                .collect::<Option<Vec<_>>>()?,
            clauses: v
                .get("clauses")?
                .as_array()?
                .iter()
                .map(ints)
                .collect::<Option<Vec<_>>>()?,
            reserve: v.get("reserve").and_then(|x| x.as_u64()).map(|x| x as usize),
            assumptions: ints(v.get("assumptions")?)?,
        })
    }
}

#[derive(Clone, Debug, PartialEq)]
pub enum ExtResult {
    Sat(Vec<Option<bool>>),
    Unsat,
    Unknown,
    Panic(String),
}

impl ExtResult {
    pub fn to_json(&self) -> Value {
        match self {
            ExtResult::Sat(m) => json!({"result": "sat", "model": m}),
            ExtResult::Unsat => json!({"result": "unsat"}),
            ExtResult::Unknown => json!({"result": "unknown"}),
            ExtResult::Panic(m) => json!({"result": "panic", "msg": m}),
        }
    }
    pub fn from_json(v: &Value) -> Option<ExtResult> {
        match v.get("result")?.as_str()? {
            "sat" => Some(ExtResult::Sat(
                v.get("model")?
                    .as_array()?
                    .iter()
                    .map(|x| x.as_bool())
                    .collect(),
            )),
            "unsat" => Some(ExtResult::Unsat),
            "unknown" => Some(ExtResult::Unknown),
            "panic" => Some(ExtResult::Panic(
                v.get("msg").and_then(|m| m.as_str()).unwrap_or("").to_string(),
            )),
            _ => None,
        }
    }
    pub fn class(&self) -> &'static str {
        match self {
            ExtResult::Sat(_) => "sat",
            ExtResult::Unsat => "unsat",
            ExtResult::Unknown => "unknown",
            ExtResult::Panic(_) => "panic",
        }
    }
}

/// Performs the call in this process (used by the `ext-call` sub-command).
pub fn perform(spec: &ExtSpec) -> ExtResult {
    use crustabri::sat::{ExternalSatSolver, Literal, SatSolver, SolvingResult};
    let r = crate::report::catch(|| {
        let mut s = ExternalSatSolver::new(spec.program.clone(), spec.options.clone());
        if let Some(r) = spec.reserve {
            s.reserve(r);
        }
        for c in spec.clauses.iter() {
            s.add_clause(c.iter().map(|l| Literal::from(*l)).collect());
        }
        let ass: Vec<Literal> = spec.assumptions.iter().map(|l| Literal::from(*l)).collect();
        let res = s.solve_under_assumptions(&ass);
        let n = s.n_vars();
        match res {
            SolvingResult::Satisfiable(a) => match crate::monitor::model_values(&a, n) {
                Ok(m) => ExtResult::Sat(m),
                Err(e) => ExtResult::Panic(format!("model not queryable: {}", e)),
            },
            SolvingResult::Unsatisfiable => ExtResult::Unsat,
            SolvingResult::Unknown => ExtResult::Unknown,
        }
    });
    match r {
        Ok(x) => x,
        Err(p) => ExtResult::Panic(p.msg),
    }
}

#[derive(Clone, Debug)]
pub struct TaskSample {
    pub tid: i32,
    pub state: String,
    pub syscall: String,
    pub wchan: String,
    /// What the first syscall argument refers to when it is a file descriptor of the process.
    pub fd_target: String,
}

#[derive(Clone, Debug)]
pub struct ProcSample {
    pub pid: i32,
    pub io: String,
    pub tasks: Vec<TaskSample>,
}

fn read_small(p: &str) -> String {
    std::fs::read_to_string(p).unwrap_or_default().trim().to_string()
}

fn state_of(stat: &str) -> String {
    stat.rsplit(')')
        .next()
        .and_then(|r| r.split_whitespace().next())
        .unwrap_or("?")
        .to_string()
}

/// Samples every thread of a process: state, current syscall, wait channel, and the target of the
/// descriptor the syscall is operating on.
pub fn sample(pid: i32) -> ProcSample {
    let mut tasks = Vec::new();
    if let Ok(rd) = std::fs::read_dir(format!("/proc/{}/task", pid)) {
        for e in rd.flatten() {
            if let Ok(tid) = e.file_name().to_string_lossy().parse::<i32>() {
                let base = format!("/proc/{}/task/{}", pid, tid);
                let syscall = read_small(&format!("{}/syscall", base));
                let fd_target = syscall
                    .split_whitespace()
                    .nth(1)
                    .and_then(|a| i64::from_str_radix(a.trim_start_matches("0x"), 16).ok())
                    .filter(|fd| *fd >= 0 && *fd < 4096)
                    .and_then(|fd| std::fs::read_link(format!("/proc/{}/fd/{}", pid, fd)).ok())
                    .map(|p| p.to_string_lossy().to_string())
                    .unwrap_or_default();
                tasks.push(TaskSample {
                    tid,
                    state: state_of(&read_small(&format!("{}/stat", base))),
                    syscall,
                    wchan: read_small(&format!("{}/wchan", base)),
                    fd_target,
                });
            }
        }
    }
    tasks.sort_by_key(|t| t.tid);
    ProcSample {
        pid,
        io: read_small(&format!("/proc/{}/io", pid))
            .lines()
            .filter(|l| l.starts_with("rchar") || l.starts_with("wchar"))
            .collect::<Vec<_>>()
            .join(" "),
        tasks,
    }
}

pub fn children_of(pid: i32) -> Vec<i32> {
    let mut out = Vec::new();
    if let Ok(rd) = std::fs::read_dir("/proc") {
        for e in rd.flatten() {
            if let Ok(p) = e.file_name().to_string_lossy().parse::<i32>() {
                let stat = read_small(&format!("/proc/{}/stat", p));
                if let Some(rest) = stat.rsplit(')').next() {
                    let f: Vec<&str> = rest.split_whitespace().collect();
                    if f.len() > 1 && f[1].parse::<i32>().ok() == Some(pid) {
                        out.push(p);
                    }
                }
            }
        }
    }
    out
}

/// A structural deadlock: every thread of every process of the tree sleeps in a call that waits
/// for another member of the tree (pipe read/write, wait4/waitid, futex = thread join), at least
/// one of them on a pipe, and no byte moved between two samples taken one second apart.
pub fn deadlock_witness(s1: &[ProcSample], s2: &[ProcSample]) -> (bool, Value) {
    let mut all_blocked = true;
    let mut on_pipe = 0;
    let mut why = Vec::new();
    for p in s2.iter() {
        if p.tasks.is_empty() {
            all_blocked = false;
            why.push(format!("pid {} has no readable tasks", p.pid));
        }
        for t in p.tasks.iter() {
            let nr = syscall_nr(&t.syscall);
            let pipe = t.fd_target.starts_with("pipe:");
            let ok = t.state == "S"
                && match nr {
                    Some(0) | Some(1) => pipe,
                    Some(61) | Some(247) | Some(202) => true,
                    _ => false,
                };
            if !ok {
                all_blocked = false;
                why.push(format!("pid {} tid {} state {} syscall {:?} on {:?}", p.pid, t.tid, t.state, nr, t.fd_target));
            }
            if matches!(nr, Some(0) | Some(1)) && pipe && t.state == "S" {
                on_pipe += 1;
            }
        }
    }
    let no_progress = s1.len() == s2.len() && s1.iter().zip(s2.iter()).all(|(a, b)| a.pid == b.pid && a.io == b.io);
    let witness = all_blocked && on_pipe >= 1 && no_progress;
    let ev = json!({
        "all_threads_blocked_on_tree_members": all_blocked,
        "threads_blocked_on_a_pipe": on_pipe,
        "no_io_progress_between_samples": no_progress,
        "not_blocked": why,
        "processes": s2.iter().map(|p| json!({"pid": p.pid, "io": p.io,
            "tasks": p.tasks.iter().map(|t| json!({"tid": t.tid, "state": t.state, "syscall": t.syscall, "wchan": t.wchan, "fd": t.fd_target})).collect::<Vec<_>>()})).collect::<Vec<_>>(),
    });
    (witness, ev)
}

#[derive(Debug)]
pub enum CallOutcome {
    Returned(ExtResult, Duration),
    /// The call did not return: (is it a structural deadlock?, evidence)
    Stuck(bool, Value),
    HarnessError(String),
}

fn syscall_nr(s: &str) -> Option<i64> {
    s.split_whitespace().next()?.parse().ok()
}

/// Runs the call in a sub-process (`cverif ext-call`), with a wall-clock watchdog that never
/// produces a verdict by itself: on expiry the process tree is sampled twice, one second apart.
pub fn call_in_subprocess(cverif: &Path, spec: &ExtSpec, timeout: Duration, scratch: &Path) -> CallOutcome {
    // the specification goes through a file: it can exceed the argv limit
    let spec_file = scratch.join(format!("ext-spec-{}.json", std::process::id()));
    if let Err(e) = std::fs::write(&spec_file, serde_json::to_string(&spec.to_json()).unwrap()) {
        return CallOutcome::HarnessError(format!("cannot write {:?}: {}", spec_file, e));
    }
    let out_file = scratch.join(format!("ext-out-{}.json", std::process::id()));
    let mut child = match Command::new(cverif)
        .arg("ext-call")
        .arg(format!("@{}", spec_file.to_string_lossy()))
        .stdin(Stdio::null())
        // the result goes to a file, not a pipe: a large model must not block the sub-process
        .stdout(match std::fs::File::create(&out_file) {
            Ok(f) => Stdio::from(f),
            Err(e) => return CallOutcome::HarnessError(format!("cannot create {:?}: {}", out_file, e)),
        })
        .stderr(Stdio::null())
        .env("RUST_BACKTRACE", "0")
        .spawn()
    {
        Ok(c) => c,
        Err(e) => return CallOutcome::HarnessError(format!("cannot spawn {:?}: {}", cverif, e)),
    };
    let t0 = Instant::now();
    loop {
        match child.try_wait() {
            Ok(Some(_)) => break,
            Ok(None) => {
                if t0.elapsed() > timeout {
                    let pid = child.id() as i32;
                    let kids = children_of(pid);
                    let s1: Vec<ProcSample> = std::iter::once(pid).chain(kids.iter().copied()).map(sample).collect();
                    std::thread::sleep(Duration::from_millis(1000));
                    let s2: Vec<ProcSample> = std::iter::once(pid).chain(kids.iter().copied()).map(sample).collect();
                    let (witness, mut ev) = deadlock_witness(&s1, &s2);
                    ev["waited_s"] = json!(t0.elapsed().as_secs_f64());
                    for k in kids {
                        unsafe {
                            libc::kill(k, libc::SIGKILL);
                        }
                    }
                    let _ = child.kill();
                    let _ = child.wait();
                    return CallOutcome::Stuck(witness, ev);
                }
                std::thread::sleep(Duration::from_millis(2));
            }
            Err(e) => return CallOutcome::HarnessError(format!("wait: {}", e)),
        }
    }
    let dt = t0.elapsed();
    let out = std::fs::read_to_string(&out_file).unwrap_or_default();
    let line = out.lines().last().unwrap_or("");
    match serde_json::from_str::<Value>(line).ok().and_then(|v| ExtResult::from_json(&v)) {
        Some(r) => CallOutcome::Returned(r, dt),
        None => CallOutcome::HarnessError(format!("ext-call printed {:?}", out.chars().take(200).collect::<String>())),
    }
}
