//! Per-shard context: counters, distinct-case hashes, samples, violations, replay files.

use serde_json::{json, Map, Value};
use std::collections::{BTreeMap, HashSet};
use std::io::Write;
use std::path::PathBuf;
use std::time::{Duration, Instant};

#[derive(Clone, Copy, Debug, PartialEq, Eq)]
pub enum Tier {
    Quick,
    Thorough,
}

impl Tier {
    pub fn name(self) -> &'static str {
        match self {
            Tier::Quick => "quick",
            Tier::Thorough => "thorough",
        }
    }
    /// Picks a per-tier constant.
    pub fn pick<T>(self, quick: T, thorough: T) -> T {
        match self {
            Tier::Quick => quick,
            Tier::Thorough => thorough,
        }
    }
}

pub struct Ctx {
    pub prop: String,
    pub tier: Tier,
    pub seed: u64,
    pub shard: usize,
    pub nshards: usize,
    pub out_dir: PathBuf,
    pub replay_dir: PathBuf,
    /// Directory holding the binaries (cverif, msat) — used to locate msat.
    pub bin_dir: PathBuf,
    /// Directory holding crustabri binaries built from /repo.
    pub repo_bin_dir: PathBuf,
    /// Committed regression inputs (one directory per property).
    pub corpus_dir: PathBuf,
    pub evals: u64,
    hashes: HashSet<u64>,
    counters: BTreeMap<String, u64>,
    maxima: BTreeMap<String, u64>,
    samples: Vec<Value>,
    sample_keys: HashSet<String>,
    n_violations: u64,
    viol_by_sig: BTreeMap<String, u64>,
    inconclusive: BTreeMap<String, u64>,
    log: std::fs::File,
    pub start: Instant,
    pub budget: Duration,
    pub replay_mode: bool,
    stopped_by_time: bool,
}

pub const MAX_REPLAYS_PER_SIGNATURE: u64 = 3;

impl Ctx {
    #[allow(clippy::too_many_arguments)]
    pub fn new(
        prop: &str,
        tier: Tier,
        seed: u64,
        shard: usize,
        nshards: usize,
        out_dir: PathBuf,
        replay_dir: PathBuf,
        bin_dir: PathBuf,
        repo_bin_dir: PathBuf,
        budget: Duration,
    ) -> Ctx {
        std::fs::create_dir_all(&out_dir).expect("harness: cannot create out dir");
        std::fs::create_dir_all(&replay_dir).expect("harness: cannot create replay dir");
        let log_path = out_dir.join(format!("shard-{}.jsonl", shard));
        let log = std::fs::File::create(&log_path).expect("harness: cannot create shard log");
        Ctx {
            prop: prop.to_string(),
            tier,
            seed,
            shard,
            nshards,
            out_dir,
            replay_dir,
            bin_dir,
            repo_bin_dir,
            corpus_dir: PathBuf::from("/verif/corpus"),
            evals: 0,
            hashes: HashSet::new(),
            counters: BTreeMap::new(),
            maxima: BTreeMap::new(),
            samples: Vec::new(),
            sample_keys: HashSet::new(),
            n_violations: 0,
            viol_by_sig: BTreeMap::new(),
            inconclusive: BTreeMap::new(),
            log,
            start: Instant::now(),
            budget,
            replay_mode: false,
            stopped_by_time: false,
        }
    }

    /// True when this shard is responsible for case number `i`.
    pub fn mine(&self, i: u64) -> bool {
        (i % self.nshards as u64) as usize == self.shard
    }

    /// Workload time guard (never a verdict): true when the shard should stop generating cases.
    pub fn out_of_time(&mut self) -> bool {
        if self.start.elapsed() > self.budget {
            self.stopped_by_time = true;
            true
        } else {
            false
        }
    }

    pub fn eval(&mut self) {
        self.evals += 1;
    }

    pub fn evals_by(&mut self, k: u64) {
        self.evals += k;
    }

    pub fn count(&mut self, key: &str) {
        *self.counters.entry(key.to_string()).or_insert(0) += 1;
    }

    pub fn count_by(&mut self, key: &str, by: u64) {
        *self.counters.entry(key.to_string()).or_insert(0) += by;
    }

    pub fn maximum(&mut self, key: &str, v: u64) {
        let e = self.maxima.entry(key.to_string()).or_insert(0);
        if v > *e {
            *e = v;
        }
    }

    pub fn counter(&self, key: &str) -> u64 {
        self.counters.get(key).copied().unwrap_or(0)
    }

    /// Registers a distinct non-trivial case (by canonical hash).
    pub fn nontrivial(&mut self, hash: u64) {
        self.hashes.insert(hash);
    }

    pub fn inconclusive(&mut self, reason: &str) {
        *self.inconclusive.entry(reason.to_string()).or_insert(0) += 1;
    }

    /// Keeps at most two samples per key and at most 12 in all.
    pub fn sample(&mut self, key: &str, v: impl FnOnce() -> Value) {
        if self.samples.len() >= 12 {
            return;
        }
        let k1 = format!("{}#1", key);
        let k2 = format!("{}#2", key);
        if self.sample_keys.contains(&k2) {
            return;
        }
        let k = if self.sample_keys.contains(&k1) { k2 } else { k1 };
        self.sample_keys.insert(k);
        let mut val = v();
        if let Value::Object(m) = &mut val {
            m.insert("sample_of".to_string(), json!(key));
        }
        self.samples.push(val);
    }

    fn write_line(&mut self, v: &Value) {
        let mut s = serde_json::to_string(v).unwrap();
        s.push('\n');
        self.log
            .write_all(s.as_bytes())
            .expect("harness: cannot write shard log");
        let _ = self.log.flush();
    }

    /// Announces the case about to run, so that a crash of the shard can be attributed.
    pub fn case_begin(&mut self, desc: &Value) {
        let v = json!({"t": "case-begin", "case": desc});
        self.write_line(&v);
    }

    /// Records a violation.  `signature` identifies the *kind* of observation (used for
    /// known-finding matching); `case` is the concrete, replayable case.
    pub fn violation(&mut self, signature: &str, detail: Value, case: &Value) {
        self.n_violations += 1;
        let c = self.viol_by_sig.entry(signature.to_string()).or_insert(0);
        *c += 1;
        let nth = *c;
        if self.replay_mode {
            println!(
                "REPLAY-VIOLATION property={} signature={} detail={}",
                self.prop, signature, detail
            );
            return;
        }
        if nth > MAX_REPLAYS_PER_SIGNATURE {
            return;
        }
        let replay = json!({
            "property": self.prop,
            "signature": signature,
            "detail": detail,
            "case": case,
            "seed_path": [self.seed, self.shard],
        });
        let mut h = crate::rng::Hasher64::new();
        h.str(&serde_json::to_string(&replay).unwrap());
        let name = format!(
            "{}-{:016x}.json",
            signature
                .chars()
                .map(|c| if c.is_ascii_alphanumeric() || c == '-' || c == '_' {
                    c
                } else {
                    '_'
                })
                .collect::<String>(),
            h.finish()
        );
        let path = self.replay_dir.join(name);
        std::fs::write(&path, serde_json::to_string_pretty(&replay).unwrap())
            .expect("harness: cannot write replay");
        let v = json!({
            "t": "violation",
            "signature": signature,
            "detail": replay["detail"],
            "replay": path.to_string_lossy(),
        });
        self.write_line(&v);
    }

    pub fn n_violations(&self) -> u64 {
        self.n_violations
    }

    /// Harness-level error: never a violation.
    pub fn harness_error(&mut self, msg: &str) {
        let v = json!({"t": "harness-error", "msg": msg});
        self.write_line(&v);
        eprintln!("HARNESS-ERROR shard {}: {}", self.shard, msg);
    }

    pub fn finish(mut self) {
        // distinct hashes go to a binary side file, merged by `cverif merge-hashes`
        let hash_path = self.out_dir.join(format!("shard-{}.hashes", self.shard));
        let mut hs: Vec<u64> = self.hashes.iter().copied().collect();
        hs.sort_unstable();
        let mut bytes = Vec::with_capacity(hs.len() * 8);
        for h in hs.iter() {
            bytes.extend_from_slice(&h.to_le_bytes());
        }
        std::fs::write(&hash_path, bytes).expect("harness: cannot write hashes");
        let mut counters = Map::new();
        for (k, v) in self.counters.iter() {
            counters.insert(k.clone(), json!(v));
        }
        let mut maxima = Map::new();
        for (k, v) in self.maxima.iter() {
            maxima.insert(k.clone(), json!(v));
        }
        let mut inconc = Map::new();
        for (k, v) in self.inconclusive.iter() {
            inconc.insert(k.clone(), json!(v));
        }
        let mut vb = Map::new();
        for (k, v) in self.viol_by_sig.iter() {
            vb.insert(k.clone(), json!(v));
        }
        let v = json!({
            "t": "summary",
            "shard": self.shard,
            "evaluations": self.evals,
            "distinct_nontrivial_local": self.hashes.len(),
            "counters": counters,
            "maxima": maxima,
            "inconclusive": inconc,
            "violations": self.n_violations,
            "violations_by_signature": vb,
            "samples": self.samples,
            "stopped_by_time": self.stopped_by_time,
            "wall_s": self.start.elapsed().as_secs_f64(),
        });
        self.write_line(&v);
    }
}

/// Installs a panic hook that records the message in a thread local instead of printing it.
pub fn install_quiet_panic_hook() {
    std::panic::set_hook(Box::new(|info| {
        let msg = if let Some(s) = info.payload().downcast_ref::<&str>() {
            s.to_string()
        } else if let Some(s) = info.payload().downcast_ref::<String>() {
            s.clone()
        } else {
            "<non-string panic payload>".to_string()
        };
        let loc = info
            .location()
            .map(|l| format!("{}:{}", l.file(), l.line()))
            .unwrap_or_default();
        if CATCH_DEPTH.with(|d| d.get()) == 0 {
            // a panic outside `catch` is a harness bug: make it visible
            eprintln!("HARNESS-ERROR uncaught panic at {}: {}", loc, msg);
        }
        LAST_PANIC.with(|p| *p.borrow_mut() = Some((msg, loc)));
    }));
}

thread_local! {
    pub static CATCH_DEPTH: std::cell::Cell<usize> = const { std::cell::Cell::new(0) };
    pub static LAST_PANIC: std::cell::RefCell<Option<(String, String)>> = const { std::cell::RefCell::new(None) };
}

#[derive(Clone, Debug)]
pub struct PanicInfo {
    pub msg: String,
    pub loc: String,
}

impl PanicInfo {
    pub fn to_json(&self) -> Value {
        json!({"panic": self.msg, "at": self.loc})
    }
    /// A short, stable classification of the panic site for signatures.
    pub fn site(&self) -> String {
        // file name without directory and without line (lines move with edits)
        let f = self.loc.rsplit('/').next().unwrap_or("");
        f.split(':').next().unwrap_or("").to_string()
    }
}

/// Runs `f`, catching panics; the panic message and location are returned.
pub fn catch<R>(f: impl FnOnce() -> R) -> Result<R, PanicInfo> {
    LAST_PANIC.with(|p| *p.borrow_mut() = None);
    CATCH_DEPTH.with(|d| d.set(d.get() + 1));
    let res = std::panic::catch_unwind(std::panic::AssertUnwindSafe(f));
    CATCH_DEPTH.with(|d| d.set(d.get() - 1));
    match res {
        Ok(r) => Ok(r),
        Err(_) => {
            let (msg, loc) = LAST_PANIC
                .with(|p| p.borrow_mut().take())
                .unwrap_or_else(|| ("<unknown panic>".to_string(), String::new()));
            Err(PanicInfo { msg, loc })
        }
    }
}

/// Runs one case; a panic that escapes the monitored calls (raised by crustabri while the harness
/// was merely inspecting a framework, or a harness bug) is recorded and the case counted as
/// inconclusive instead of killing the shard.
pub fn guarded(ctx: &mut Ctx, f: impl FnOnce(&mut Ctx)) {
    let r = catch(|| f(ctx));
    if let Err(p) = r {
        ctx.inconclusive("panic-escaped-a-monitored-call");
        let in_repo = p.loc.contains("/repo/src") || p.loc.starts_with("src/") && !p.loc.contains("harness");
        ctx.count(if in_repo { "escaped_panics/raised-in-crustabri" } else { "escaped_panics/other" });
        eprintln!("escaped panic at {}: {}", p.loc, p.msg);
    }
}
