//! Oracles over abstract graphs: exact brute force, exact by composition over small components,
//! and (for connected mid-size inputs) the independent SAT reference.

use crate::refsat::RefSat;
use crate::refsem::{mask_of, Abs, OracleSelfCheckFailure, RefSem, Sem};

pub const SMALL_LIMIT: usize = 14;
pub const COMPONENT_LIMIT: usize = 12;

pub struct Comp {
    pub members: Vec<usize>,
    pub sem: RefSem,
}

pub enum Oracle {
    Small(RefSem),
    Composed {
        comps: Vec<Comp>,
        /// comp_of[i] = (component index, local index)
        comp_of: Vec<(usize, usize)>,
    },
    Sat(Box<RefSat>),
}

impl Oracle {
    /// Picks the strongest oracle available for the graph.
    pub fn for_graph(g: &Abs) -> Result<Oracle, OracleSelfCheckFailure> {
        if g.n <= SMALL_LIMIT {
            return Ok(Oracle::Small(RefSem::new(g)?));
        }
        let comps = g.components();
        if comps.iter().all(|c| c.len() <= COMPONENT_LIMIT) {
            return Self::composed(g);
        }
        Ok(Oracle::Sat(Box::new(RefSat::new(g))))
    }

    pub fn composed(g: &Abs) -> Result<Oracle, OracleSelfCheckFailure> {
        let comps = g.components();
        let mut comp_of = vec![(0usize, 0usize); g.n];
        let mut out = Vec::new();
        for (ci, members) in comps.into_iter().enumerate() {
            for (li, m) in members.iter().enumerate() {
                comp_of[*m] = (ci, li);
            }
            let sub = g.induced(&members);
            out.push(Comp {
                sem: RefSem::new(&sub)?,
                members,
            });
        }
        Ok(Oracle::Composed {
            comps: out,
            comp_of,
        })
    }

    pub fn kind(&self) -> &'static str {
        match self {
            Oracle::Small(_) => "brute-force",
            Oracle::Composed { .. } => "brute-force-by-composition",
            Oracle::Sat(_) => "refsat",
        }
    }

    fn split(comps: &[Comp], comp_of: &[(usize, usize)], set: &[usize]) -> Vec<u32> {
        let mut masks = vec![0u32; comps.len()];
        for a in set {
            let (c, l) = comp_of[*a];
            masks[c] |= 1 << l;
        }
        masks
    }

    /// Does the framework have at least one extension?  (None = inconclusive.)
    pub fn has_ext(&mut self, sem: Sem) -> Option<bool> {
        match self {
            Oracle::Small(r) => Some(!r.exts(sem).is_empty()),
            Oracle::Composed { comps, .. } => Some(comps.iter().all(|c| !c.sem.exts(sem).is_empty())),
            Oracle::Sat(s) => s.has_ext(sem),
        }
    }

    /// Number of extensions, saturating at u64::MAX (None = not computed).
    pub fn n_ext(&mut self, sem: Sem) -> Option<u64> {
        match self {
            Oracle::Small(r) => Some(r.exts(sem).len() as u64),
            Oracle::Composed { comps, .. } => Some(comps.iter().fold(1u64, |acc, c| {
                acc.saturating_mul(c.sem.exts(sem).len() as u64)
            })),
            Oracle::Sat(s) => s.n_ext_lower_bound(sem),
        }
    }

    /// Exists an extension containing at least one of `args`.
    pub fn cred(&mut self, sem: Sem, args: &[usize]) -> Option<bool> {
        match self {
            Oracle::Small(r) => Some(r.cred(sem, mask_of(args))),
            Oracle::Composed { comps, comp_of } => {
                if comps.iter().any(|c| c.sem.exts(sem).is_empty()) {
                    return Some(false);
                }
                let masks = Self::split(comps, comp_of, args);
                Some(
                    comps
                        .iter()
                        .zip(masks.iter())
                        .any(|(c, m)| *m != 0 && c.sem.cred(sem, *m)),
                )
            }
            Oracle::Sat(s) => s.cred(sem, args),
        }
    }

    /// Every extension contains at least one of `args` (true when there is no extension).
    pub fn skep(&mut self, sem: Sem, args: &[usize]) -> Option<bool> {
        match self {
            Oracle::Small(r) => Some(r.skep(sem, mask_of(args))),
            Oracle::Composed { comps, comp_of } => {
                if comps.iter().any(|c| c.sem.exts(sem).is_empty()) {
                    return Some(true);
                }
                let masks = Self::split(comps, comp_of, args);
                Some(
                    comps
                        .iter()
                        .zip(masks.iter())
                        .any(|(c, m)| *m != 0 && c.sem.skep(sem, *m)),
                )
            }
            Oracle::Sat(s) => s.skep(sem, args),
        }
    }

    /// Is `set` (sorted abstract indices) an extension under `sem`?
    pub fn is_ext(&mut self, sem: Sem, set: &[usize]) -> Option<bool> {
        match self {
            Oracle::Small(r) => Some(r.is_ext(sem, mask_of(set))),
            Oracle::Composed { comps, comp_of } => {
                let masks = Self::split(comps, comp_of, set);
                Some(
                    comps
                        .iter()
                        .zip(masks.iter())
                        .all(|(c, m)| c.sem.is_ext(sem, *m)),
                )
            }
            Oracle::Sat(s) => s.is_ext(sem, set),
        }
    }

    /// Is `set` a complete extension? (used for DC-PR certificates)
    pub fn is_complete(&mut self, set: &[usize]) -> Option<bool> {
        self.is_ext(Sem::CO, set)
    }

    pub fn n_components(&self, g: &Abs) -> usize {
        match self {
            Oracle::Composed { comps, .. } => comps.len(),
            _ => g.components().len(),
        }
    }
}
