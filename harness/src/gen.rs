//! Generators of abstract attack graphs.

use crate::refsem::Abs;
use crate::rng::{Hasher64, Rng};

/// The k-th digraph on n nodes (bit a*n+b of k = attack a->b).
pub fn all_graph(n: usize, k: u64) -> Abs {
    let mut att = Vec::new();
    for a in 0..n {
        for b in 0..n {
            if k & (1u64 << (a * n + b)) != 0 {
                att.push((a, b));
            }
        }
    }
    Abs::new(n, att)
}

pub fn n_all_graphs(n: usize) -> u64 {
    1u64 << (n * n)
}

pub fn er(rng: &mut Rng, n: usize, p_pct: usize, self_pct: usize) -> Abs {
    let mut att = Vec::new();
    for a in 0..n {
        for b in 0..n {
            if a == b {
                if rng.pct(self_pct) {
                    att.push((a, b));
                }
            } else if rng.pct(p_pct) {
                att.push((a, b));
            }
        }
    }
    Abs::new(n, att)
}

pub fn random_er(rng: &mut Rng, nmin: usize, nmax: usize) -> Abs {
    let n = rng.range(nmin, nmax);
    let p = *rng.pick(&[1usize, 3, 5, 8, 12, 18, 25, 35, 50, 70]);
    let sp = *rng.pick(&[0usize, 0, 5, 15, 30]);
    er(rng, n, p, sp)
}

/// Relabels the graph by a permutation: new index of old i is perm[i].
pub fn permuted(g: &Abs, perm: &[usize]) -> Abs {
    Abs::new(
        g.n,
        g.att.iter().map(|(a, b)| (perm[*a], perm[*b])).collect(),
    )
}

pub fn shuffle_labels(g: &Abs, rng: &mut Rng) -> Abs {
    let p = rng.perm(g.n);
    let mut h = permuted(g, &p);
    rng.shuffle(&mut h.att);
    h
}

/// Disjoint union with interleaved labels.
pub fn union_of(parts: &[Abs], rng: &mut Rng) -> Abs {
    let mut att = Vec::new();
    let mut off = 0;
    for p in parts {
        for (a, b) in p.att.iter() {
            att.push((a + off, b + off));
        }
        off += p.n;
    }
    let g = Abs::new(off, att);
    shuffle_labels(&g, rng)
}

pub fn ring(n: usize) -> Abs {
    Abs::new(n, (0..n).map(|i| (i, (i + 1) % n)).collect())
}

pub fn chain(n: usize) -> Abs {
    Abs::new(n, (0..n.saturating_sub(1)).map(|i| (i, i + 1)).collect())
}

pub fn two_cycle() -> Abs {
    Abs::new(2, vec![(0, 1), (1, 0)])
}

pub fn self_attacker() -> Abs {
    Abs::new(1, vec![(0, 0)])
}

pub fn singleton() -> Abs {
    Abs::new(1, vec![])
}

/// Small component drawn from a menu of shapes that matter: odd cycles (no stable extension),
/// even cycles, self-attackers, isolated arguments, random graphs.
pub fn small_component(rng: &mut Rng, max_n: usize) -> Abs {
    if max_n >= 5 && rng.pct(12) {
        return layered_component(rng, max_n);
    }
    match rng.below(10) {
        0 => ring(3.min(max_n.max(1))),
        1 => ring(if max_n >= 5 { 5 } else { 3.min(max_n.max(1)) }),
        2 => two_cycle(),
        3 => self_attacker(),
        4 => singleton(),
        5 => ring(4.min(max_n.max(2))),
        6 => chain(rng.range(2, 4.min(max_n.max(2)))),
        _ => {
            let n = rng.range(2, max_n.max(2));
            let p = *rng.pick(&[15usize, 25, 40]);
            let sp = *rng.pick(&[0usize, 10]);
            let mut g = er(rng, n, p, sp);
            connect(&mut g, rng);
            g
        }
    }
}

/// A component with a non-trivial *grounded front*: k unattacked sources, a layer of arguments each
/// attacked by several sources at once (fan-in: the grounded extension attacks the same argument
/// more than once), and behind that layer a small core that the grounded extension leaves free
/// (2-cycle, odd or even ring, self-attacker, chain).  Counting attacks instead of attacked
/// arguments, or treating "grounded attacks everything" loosely, only shows on this shape.
pub fn layered_component(rng: &mut Rng, max_n: usize) -> Abs {
    let max_n = max_n.max(5);
    let k = rng.range(1, 3.min(max_n - 3));
    let m = rng.range(1, 2.min(max_n - k - 2));
    let room = max_n - k - m;
    let core = match rng.below(6) {
        0 => two_cycle(),
        1 => ring(3.min(room.max(1))),
        2 => self_attacker(),
        3 => ring(4.min(room.max(2))),
        4 => chain(rng.range(1, 3.min(room.max(1)))),
        _ => {
            let n = rng.range(2, room.clamp(2, 4));
            let mut g = er(rng, n, 40, 10);
            connect(&mut g, rng);
            g
        }
    };
    let n = k + m + core.n;
    let mut att: Vec<(usize, usize)> = Vec::new();
    for t in 0..m {
        // every layer argument is attacked by at least one source, usually by several
        let mut any = false;
        for s in 0..k {
            if rng.pct(75) {
                att.push((s, k + t));
                any = true;
            }
        }
        if !any {
            att.push((rng.below(k), k + t));
        }
        // ... and attacks into the core (sometimes a source does too)
        att.push((k + t, k + m + rng.below(core.n)));
        if rng.pct(30) {
            att.push((k + t, k + m + rng.below(core.n)));
        }
    }
    if rng.pct(15) {
        att.push((rng.below(k), k + m + rng.below(core.n)));
    }
    if rng.pct(20) && m == 2 {
        att.push((k, k + 1));
    }
    for (a, b) in core.att.iter() {
        att.push((k + m + a, k + m + b));
    }
    att.sort();
    att.dedup();
    let g = Abs::new(n, att);
    shuffle_labels(&g, rng)
}

/// Unions of one to three layered components and sometimes a small one.
pub fn layered_family(rng: &mut Rng, max_total: usize) -> Abs {
    let k = rng.range(1, 3);
    let mut parts = Vec::new();
    let mut total = 0;
    for _ in 0..k {
        let room = max_total.saturating_sub(total);
        if room < 5 {
            break;
        }
        let c = layered_component(rng, room.min(7));
        total += c.n;
        parts.push(c);
    }
    if rng.pct(50) && max_total.saturating_sub(total) >= 2 {
        let c = small_component(rng, (max_total - total).min(4));
        if c.n <= max_total - total {
            parts.push(c);
        }
    }
    if parts.is_empty() {
        parts.push(layered_component(rng, 5));
    }
    union_of(&parts, rng)
}

/// Many small components with several preferred extensions each (two-cycles, three-cycles with a
/// chord), one component whose ideal extension is larger than its grounded one, and one or two
/// unattacked singletons: per-component procedures stay cheap, anything that works on the *merged*
/// remainder enumerates the product of the components' extensions.
pub fn many_components(rng: &mut Rng) -> Abs {
    let mut parts: Vec<Abs> = Vec::new();
    for _ in 0..rng.range(1, 2) {
        parts.push(singleton());
    }
    // a <-> b, b -> b: grounded empty, ideal {a}
    parts.push(Abs::new(2, vec![(0, 1), (1, 0), (1, 1)]));
    for _ in 0..rng.range(5, 9) {
        parts.push(if rng.pct(80) { two_cycle() } else { Abs::new(3, vec![(0, 1), (1, 0), (0, 2), (1, 2)]) });
    }
    union_of(&parts, rng)
}

/// 66-140 arguments in small components that all have stable extensions (two-cycles, chains, four-cycles,
/// isolated arguments, a two-cycle with a common victim): every semantics has many extensions, the statuses are
/// not trivial, and the ids pass 64 and sometimes 128.  `union_of` keeps the parts in the order drawn or shuffles.
pub fn stable_rich_over_64(rng: &mut Rng) -> Abs {
    let target = rng.range(66, 140);
    let mut parts: Vec<Abs> = Vec::new();
    let mut total = 0;
    while total < target {
        let c = match rng.below(6) {
            0 => singleton(),
            1 | 2 => two_cycle(),
            3 => chain(rng.range(2, 5)),
            4 => ring(4),
            _ => Abs::new(3, vec![(0, 1), (1, 0), (0, 2), (1, 2)]),
        };
        total += c.n;
        parts.push(c);
    }
    union_of(&parts, rng)
}

/// Adds attacks until the graph is weakly connected.
pub fn connect(g: &mut Abs, rng: &mut Rng) {
    loop {
        let comps = g.components();
        if comps.len() <= 1 {
            break;
        }
        let a = *rng.pick(&comps[0]);
        let b = *rng.pick(&comps[1]);
        if rng.pct(50) {
            g.att.push((a, b));
        } else {
            g.att.push((b, a));
        }
    }
}

pub fn union_family(rng: &mut Rng, max_total: usize) -> Abs {
    let k = rng.range(2, 5);
    let mut parts = Vec::new();
    let mut total = 0;
    for _ in 0..k {
        let room = max_total.saturating_sub(total);
        if room == 0 {
            break;
        }
        let c = small_component(rng, room.min(5));
        if c.n > room {
            continue;
        }
        total += c.n;
        parts.push(c);
    }
    if parts.is_empty() {
        parts.push(singleton());
    }
    union_of(&parts, rng)
}

/// Shapes with many incomparable maximal sets.
pub fn lattice(rng: &mut Rng, max_n: usize) -> Abs {
    match rng.below(5) {
        0 => {
            // k disjoint 2-cycles under a hub that they all attack: 2^k preferred extensions
            let k = rng.range(2, ((max_n.saturating_sub(1)) / 2).clamp(2, 4));
            let n = 2 * k + 1;
            let hub = 2 * k;
            let mut att = Vec::new();
            for i in 0..k {
                att.push((2 * i, 2 * i + 1));
                att.push((2 * i + 1, 2 * i));
                if rng.pct(70) {
                    att.push((2 * i, hub));
                }
                if rng.pct(40) {
                    att.push((hub, 2 * i + 1));
                }
            }
            if rng.pct(30) {
                att.push((hub, hub));
            }
            Abs::new(n, att)
        }
        1 => {
            // odd cycle hanging off an even one: several maximal ranges
            let mut att = vec![(0, 1), (1, 0), (1, 2), (2, 3), (3, 4), (4, 2)];
            if rng.pct(50) {
                att.push((0, 2));
            }
            if rng.pct(50) {
                att.push((4, 5));
                return Abs::new(6, att);
            }
            Abs::new(5, att)
        }
        2 => {
            // chain of SCCs: 2-cycles feeding each other
            let k = rng.range(2, 4.min(max_n / 2).max(2));
            let mut att = Vec::new();
            for i in 0..k {
                att.push((2 * i, 2 * i + 1));
                att.push((2 * i + 1, 2 * i));
                if i + 1 < k {
                    att.push((2 * i + rng.below(2), 2 * (i + 1) + rng.below(2)));
                }
            }
            Abs::new(2 * k, att)
        }
        3 => {
            // symmetric random graph (many preferred extensions)
            let n = rng.range(4, max_n.clamp(4, 8));
            let mut att = Vec::new();
            for a in 0..n {
                for b in (a + 1)..n {
                    if rng.pct(35) {
                        att.push((a, b));
                        att.push((b, a));
                    }
                }
            }
            let mut g = Abs::new(n, att);
            connect(&mut g, rng);
            g
        }
        _ => {
            // odd ring with a chord or a self-attacker attached
            let m = *rng.pick(&[3usize, 5]);
            let mut g = ring(m);
            let mut att = g.att.clone();
            att.push((m, 0));
            if rng.pct(50) {
                att.push((m, m));
            }
            if rng.pct(50) {
                att.push((0, m));
            }
            g = Abs::new(m + 1, att);
            g
        }
    }
}

/// Dense shapes: complete and near-complete digraphs, stars, shared defender sets.
/// A target with many attackers, each of them attacked by many defenders taken from a shared
/// pool: the product of the defender-set sizes is astronomically large (beyond 2^64 for the larger
/// shapes), which is what the hybrid encoder's switching test and any size arithmetic must survive.
pub fn heavy_fan_in(rng: &mut Rng) -> Abs {
    let (m, d) = *rng.pick(&[(13usize, 32usize), (16, 16), (20, 4), (64, 2), (70, 4), (8, 8), (33, 3)]);
    let n = 1 + m + d;
    let mut att = Vec::new();
    for i in 0..m {
        att.push((1 + i, 0));
        for j in 0..d {
            att.push((1 + m + j, 1 + i));
        }
    }
    // some structure among the defenders so that the answers are not all grounded
    if d >= 2 {
        att.push((1 + m, 1 + m + 1));
        att.push((1 + m + 1, 1 + m));
    }
    if rng.pct(50) {
        att.push((0, 1 + m));
    }
    shuffle_labels(&Abs::new(n, att), rng)
}

pub fn dense(rng: &mut Rng, max_n: usize) -> Abs {
    if max_n >= 9 && rng.pct(4) {
        return heavy_fan_in(rng);
    }
    match rng.below(4) {
        0 => {
            let n = rng.range(2, max_n.clamp(2, 7));
            let mut att = Vec::new();
            for a in 0..n {
                for b in 0..n {
                    if a != b && !rng.pct(10) {
                        att.push((a, b));
                    }
                }
            }
            Abs::new(n, att)
        }
        1 => {
            // star: many attackers of one target, each attacker possibly attacked back
            let k = rng.range(3, max_n.saturating_sub(1).clamp(3, 9));
            let mut att = Vec::new();
            for i in 1..=k {
                att.push((i, 0));
                if rng.pct(40) {
                    att.push((0, i));
                }
                if rng.pct(20) && i + 1 <= k {
                    att.push((i, i + 1));
                }
            }
            Abs::new(k + 1, att)
        }
        2 => defender_product(rng, &[2, 2], 0),
        _ => {
            let n = rng.range(3, max_n.clamp(3, 7));
            er(rng, n, 70, 20)
        }
    }
}

/// A target attacked by `sizes.len()` attackers; attacker i is itself attacked by `sizes[i]`
/// defenders.  The product of the sizes is what the hybrid encoder compares with its threshold.
/// `extra` adds unrelated attacks among defenders.
pub fn defender_product(rng: &mut Rng, sizes: &[usize], extra: usize) -> Abs {
    let k = sizes.len();
    let mut n = 1 + k;
    let mut att = Vec::new();
    for (i, s) in sizes.iter().enumerate() {
        att.push((1 + i, 0));
        for _ in 0..*s {
            att.push((n, 1 + i));
            n += 1;
        }
    }
    for _ in 0..extra {
        let a = rng.range(1 + k, n - 1);
        let b = rng.range(1 + k, n - 1);
        att.push((a, b));
    }
    Abs::new(n, att)
}

/// Few complete extensions, many admissible sets: a 2-cycle hub a<->b, k chains a -> c_i -> d_i
/// (d_i defended by a, c_i reinstated by b), and an argument z defended by both a and b through w.
/// Complete sets: {}, {a, d.., z}, {b, c.., z}; admissible sets: about 2^(k+1).
/// The natural hostile shape for bounds stated in the number of *complete* candidate sets.
pub fn adm_rich(rng: &mut Rng, k: usize) -> Abs {
    let n = 2 * k + 4;
    let (a, b, w, z) = (0, 1, 2 + 2 * k, 3 + 2 * k);
    let mut att = vec![(a, b), (b, a), (a, w), (b, w), (w, z)];
    for i in 0..k {
        let c = 2 + i;
        let d = 2 + k + i;
        att.push((a, c));
        att.push((c, d));
        if rng.pct(15) {
            // a second defender chain hanging off b
            att.push((b, d));
            att.push((d, c));
        }
    }
    shuffle_labels(&Abs::new(n, att), rng)
}

/// ER graph with some attacks declared twice.
pub fn dup(rng: &mut Rng, nmin: usize, nmax: usize) -> Abs {
    let mut g = random_er(rng, nmin, nmax);
    if g.att.is_empty() && g.n > 0 {
        g.att.push((0, g.n - 1));
    }
    let k = 1 + rng.below(3);
    for _ in 0..k {
        if g.att.is_empty() {
            break;
        }
        let a = *rng.pick(&g.att);
        g.att.push(a);
    }
    rng.shuffle(&mut g.att);
    g
}

/// 20-300 arguments as a union of components of at most `comp_max` arguments.
pub fn big_union(rng: &mut Rng, nmin: usize, nmax: usize, comp_max: usize) -> Abs {
    let target = rng.range(nmin, nmax);
    let mut parts = Vec::new();
    let mut total = 0;
    while total < target {
        let c = if rng.pct(40) {
            lattice(rng, comp_max)
        } else {
            small_component(rng, comp_max.min(8))
        };
        if c.n > comp_max {
            continue;
        }
        total += c.n;
        parts.push(c);
    }
    union_of(&parts, rng)
}

/// Connected sparse graph with planted choice structure.
pub fn big_conn(rng: &mut Rng, nmin: usize, nmax: usize) -> Abs {
    let n = rng.range(nmin, nmax);
    let mut att: Vec<(usize, usize)> = Vec::new();
    // random spanning tree, random direction
    for i in 1..n {
        let j = rng.below(i);
        if rng.pct(50) {
            att.push((i, j));
        } else {
            att.push((j, i));
        }
    }
    // extra sparse attacks (average degree 1.2-3)
    let extra = n * rng.range(2, 20) / 10;
    for _ in 0..extra {
        let a = rng.below(n);
        let b = rng.below(n);
        if a != b || rng.pct(10) {
            att.push((a, b));
        }
    }
    // symmetric pairs
    let sym = n * rng.range(0, 30) / 100;
    for _ in 0..sym {
        let a = rng.below(n);
        let b = rng.below(n);
        if a != b {
            att.push((a, b));
            att.push((b, a));
        }
    }
    // even and odd rings spliced on existing nodes
    for _ in 0..rng.range(0, 1 + n / 25) {
        let len = *rng.pick(&[3usize, 4, 5, 6]);
        let nodes: Vec<usize> = (0..len).map(|_| rng.below(n)).collect();
        for i in 0..len {
            if nodes[i] != nodes[(i + 1) % len] {
                att.push((nodes[i], nodes[(i + 1) % len]));
            }
        }
    }
    // hubs with many attackers
    for _ in 0..rng.range(0, 2) {
        let h = rng.below(n);
        for _ in 0..rng.range(6, 10) {
            let a = rng.below(n);
            if a != h {
                att.push((a, h));
            }
        }
    }
    // now and then a hub with many *outgoing* attacks (16-40 targets), sometimes attacking itself
    if n >= 45 && rng.pct(25) {
        let h = rng.below(n);
        for _ in 0..rng.range(16, 40) {
            let b = rng.below(n);
            if b != h {
                att.push((h, b));
            }
        }
        if rng.pct(60) {
            att.push((h, h));
        }
    }
    att.sort();
    att.dedup();
    rng.shuffle(&mut att);
    Abs::new(n, att)
}

/// Shapes whose answers are known by formula at any size.
pub fn closed_form(rng: &mut Rng, nmin: usize, nmax: usize) -> (Abs, &'static str) {
    let n = rng.range(nmin, nmax);
    match rng.below(5) {
        0 => (chain(n), "chain"),
        1 => (ring(n - n % 2), "even-ring"),
        2 => (ring(n - n % 2 + 1), "odd-ring"),
        3 => {
            // ladder: two chains with symmetric rungs
            let k = n / 2;
            let mut att = Vec::new();
            for i in 0..k {
                att.push((2 * i, 2 * i + 1));
                att.push((2 * i + 1, 2 * i));
                if i + 1 < k {
                    att.push((2 * i, 2 * i + 2));
                    att.push((2 * i + 1, 2 * i + 3));
                }
            }
            (Abs::new(2 * k, att), "ladder")
        }
        _ => {
            // complete bipartite, both directions
            let a = n / 2;
            let b = n - a;
            let mut att = Vec::new();
            for i in 0..a {
                for j in 0..b {
                    att.push((i, a + j));
                    att.push((a + j, i));
                }
            }
            (Abs::new(n, att), "bipartite")
        }
    }
}

/// Canonical hash of a case: sorted attack list over indices, n, and extra discriminating strings.
pub fn case_hash(g: &Abs, extra: &[&str]) -> u64 {
    let mut h = Hasher64::new();
    h.usize(g.n);
    let mut a = g.att.clone();
    a.sort();
    for (x, y) in a {
        h.usize(x);
        h.usize(y);
    }
    for e in extra {
        h.str(e);
    }
    h.finish()
}

pub fn abs_to_json(g: &Abs) -> serde_json::Value {
    serde_json::json!({"n": g.n, "attacks": g.att.iter().map(|(a, b)| vec![*a, *b]).collect::<Vec<_>>()})
}

pub fn abs_from_json(v: &serde_json::Value) -> Option<Abs> {
    let n = v.get("n")?.as_u64()? as usize;
    let att = v
        .get("attacks")?
        .as_array()?
        .iter()
        .map(|p| {
            let p = p.as_array()?;
            Some((p.first()?.as_u64()? as usize, p.get(1)?.as_u64()? as usize))
        })
        .collect::<Option<Vec<_>>>()?;
    Some(Abs::new(n, att))
}
