//! Brute-force reference semantics over bitmasks (the primary oracle).
//!
//! Input is an abstract graph: `n <= 20` arguments and attack pairs.  Nothing
//! here touches a crustabri object.

#[derive(Clone, Copy, Debug, PartialEq, Eq, Hash, PartialOrd, Ord)]
pub enum Sem {
    GR,
    CO,
    PR,
    ST,
    SST,
    STG,
    ID,
}

pub const ALL_SEMS: [Sem; 7] = [
    Sem::GR,
    Sem::CO,
    Sem::PR,
    Sem::ST,
    Sem::SST,
    Sem::STG,
    Sem::ID,
];

impl Sem {
    pub fn name(self) -> &'static str {
        match self {
            Sem::GR => "GR",
            Sem::CO => "CO",
            Sem::PR => "PR",
            Sem::ST => "ST",
            Sem::SST => "SST",
            Sem::STG => "STG",
            Sem::ID => "ID",
        }
    }
    pub fn from_name(s: &str) -> Option<Sem> {
        ALL_SEMS.iter().copied().find(|x| x.name() == s)
    }
}

/// Abstract attack graph: arguments are 0..n, attacks may contain duplicates.
#[derive(Clone, Debug, PartialEq, Eq)]
pub struct Abs {
    pub n: usize,
    pub att: Vec<(usize, usize)>,
}

impl Abs {
    pub fn new(n: usize, att: Vec<(usize, usize)>) -> Self {
        for (a, b) in att.iter() {
            assert!(*a < n && *b < n, "harness: attack out of range");
        }
        Abs { n, att }
    }

    /// Sorted, de-duplicated attack list.
    pub fn att_set(&self) -> Vec<(usize, usize)> {
        let mut v = self.att.clone();
        v.sort();
        v.dedup();
        v
    }

    /// Weakly connected components (each a sorted list of argument indices), in order of least member.
    pub fn components(&self) -> Vec<Vec<usize>> {
        let mut parent: Vec<usize> = (0..self.n).collect();
        fn find(p: &mut Vec<usize>, x: usize) -> usize {
            let mut r = x;
            while p[r] != r {
                r = p[r];
            }
            let mut y = x;
            while p[y] != r {
                let nx = p[y];
                p[y] = r;
                y = nx;
            }
            r
        }
        for (a, b) in self.att.iter() {
            let ra = find(&mut parent, *a);
            let rb = find(&mut parent, *b);
            if ra != rb {
                let (lo, hi) = if ra < rb { (ra, rb) } else { (rb, ra) };
                parent[hi] = lo;
            }
        }
        let mut comps: Vec<Vec<usize>> = Vec::new();
        let mut idx = vec![usize::MAX; self.n];
        for i in 0..self.n {
            let r = find(&mut parent, i);
            if idx[r] == usize::MAX {
                idx[r] = comps.len();
                comps.push(Vec::new());
            }
            comps[idx[r]].push(i);
        }
        comps
    }

    /// The sub-graph induced by `members` (sorted), re-indexed 0..k.
    pub fn induced(&self, members: &[usize]) -> Abs {
        let mut map = vec![usize::MAX; self.n];
        for (k, m) in members.iter().enumerate() {
            map[*m] = k;
        }
        let att = self
            .att
            .iter()
            .filter(|(a, b)| map[*a] != usize::MAX && map[*b] != usize::MAX)
            .map(|(a, b)| (map[*a], map[*b]))
            .collect();
        Abs::new(members.len(), att)
    }

    pub fn is_connected(&self) -> bool {
        self.n <= 1 || self.components().len() == 1
    }
}

/// All extension families of one (small) graph.
#[derive(Clone, Debug)]
pub struct RefSem {
    pub n: usize,
    pub full: u32,
    /// atk[i] = mask of arguments attacked by i.
    pub atk: Vec<u32>,
    /// atk_by[i] = mask of attackers of i.
    pub atk_by: Vec<u32>,
    plus: Vec<u32>,
    pub cf: Vec<u32>,
    pub adm: Vec<u32>,
    pub co: Vec<u32>,
    pub st: Vec<u32>,
    pub pr: Vec<u32>,
    pub sst: Vec<u32>,
    pub stg: Vec<u32>,
    pub gr: u32,
    pub id: u32,
}

#[derive(Debug)]
pub struct OracleSelfCheckFailure(pub String);

fn maximal_masks(mut cands: Vec<u32>) -> Vec<u32> {
    cands.sort_by(|a, b| b.count_ones().cmp(&a.count_ones()).then(a.cmp(b)));
    cands.dedup();
    let mut max: Vec<u32> = Vec::new();
    for c in cands {
        if !max.iter().any(|m| (c & m) == c && c != *m) {
            max.push(c);
        }
    }
    max
}

impl RefSem {
    pub fn new(g: &Abs) -> Result<RefSem, OracleSelfCheckFailure> {
        let n = g.n;
        assert!(n <= 20, "harness: RefSem limited to 20 arguments");
        let full: u32 = if n == 0 { 0 } else { (1u32 << n) - 1 };
        let mut atk = vec![0u32; n];
        let mut atk_by = vec![0u32; n];
        for (a, b) in g.att.iter() {
            atk[*a] |= 1 << b;
            atk_by[*b] |= 1 << a;
        }
        let size = 1usize << n;
        let mut plus = vec![0u32; size];
        for s in 1..size {
            let low = s.trailing_zeros() as usize;
            plus[s] = plus[s & (s - 1)] | atk[low];
        }
        let defended = |s: u32| -> u32 {
            let p = plus[s as usize];
            let mut d = 0u32;
            for a in 0..n {
                if atk_by[a] & !p == 0 {
                    d |= 1 << a;
                }
            }
            d
        };
        let mut cf = Vec::new();
        let mut adm = Vec::new();
        let mut co = Vec::new();
        let mut st = Vec::new();
        for s in 0..size as u32 {
            let p = plus[s as usize];
            if s & p != 0 {
                continue;
            }
            cf.push(s);
            if s | p == full {
                st.push(s);
            }
            // attackers of s
            let mut minus = 0u32;
            let mut t = s;
            while t != 0 {
                let low = t.trailing_zeros() as usize;
                minus |= atk_by[low];
                t &= t - 1;
            }
            if minus & !p != 0 {
                continue;
            }
            adm.push(s);
            if defended(s) == s {
                co.push(s);
            }
        }
        // grounded: least fixed point by iteration
        let mut gr = 0u32;
        loop {
            let nx = defended(gr);
            if nx == gr {
                break;
            }
            gr = nx;
        }
        let pr = maximal_masks(co.clone());
        // maximal range
        let range_max = |fam: &Vec<u32>| -> Vec<u32> {
            let ranges: Vec<u32> = fam.iter().map(|s| s | plus[*s as usize]).collect();
            let maxr = maximal_masks(ranges);
            fam.iter()
                .copied()
                .filter(|s| maxr.contains(&(s | plus[*s as usize])))
                .collect()
        };
        let sst = range_max(&co);
        let stg = range_max(&cf);
        // ideal: union of admissible subsets of the intersection of preferred extensions
        let inter = pr.iter().fold(full, |acc, p| acc & p);
        let mut id = 0u32;
        for s in adm.iter() {
            if s & !inter == 0 {
                id |= s;
            }
        }
        let r = RefSem {
            n,
            full,
            atk,
            atk_by,
            plus,
            cf,
            adm,
            co,
            st,
            pr,
            sst,
            stg,
            gr,
            id,
        };
        r.self_check()?;
        Ok(r)
    }

    fn self_check(&self) -> Result<(), OracleSelfCheckFailure> {
        let fail = |m: &str| Err(OracleSelfCheckFailure(format!("RefSem self-check: {}", m)));
        if !self.co.contains(&self.gr) {
            return fail("grounded not complete");
        }
        if self.co.iter().any(|c| c & self.gr != self.gr) {
            return fail("grounded not least complete");
        }
        // least complete set must be unique minimum
        let min_card = self.co.iter().map(|c| c.count_ones()).min().unwrap();
        if min_card != self.gr.count_ones() {
            return fail("grounded not of minimal size among complete sets");
        }
        if self.pr.is_empty() || self.sst.is_empty() || self.stg.is_empty() {
            return fail("empty PR/SST/STG family");
        }
        if self.pr.iter().any(|p| !self.co.contains(p)) {
            return fail("PR not within CO");
        }
        if !self.co.contains(&self.id) {
            return fail("ideal not complete");
        }
        if self.pr.iter().any(|p| p & self.id != self.id) {
            return fail("ideal not within every preferred");
        }
        if self.id & self.gr != self.gr {
            return fail("grounded not within ideal");
        }
        if !self.st.is_empty() {
            let mut a = self.st.clone();
            a.sort();
            let mut b = self.sst.clone();
            b.sort();
            let mut c = self.stg.clone();
            c.sort();
            if a != b || a != c {
                return fail("ST non-empty but ST != SST or ST != STG");
            }
        }
        if self.st.iter().any(|s| !self.pr.contains(s)) {
            return fail("stable not preferred");
        }
        if self.sst.iter().any(|s| !self.pr.contains(s)) {
            return fail("semi-stable not preferred");
        }
        // preferred by the definition (maximal admissible) when cheap
        if self.adm.len() <= 4096 {
            let pr_def = maximal_masks(self.adm.clone());
            let mut a = pr_def;
            a.sort();
            let mut b = self.pr.clone();
            b.sort();
            if a != b {
                return fail("maximal admissible != maximal complete");
            }
        }
        Ok(())
    }

    pub fn plus(&self, s: u32) -> u32 {
        self.plus[s as usize]
    }

    pub fn range(&self, s: u32) -> u32 {
        s | self.plus[s as usize]
    }

    pub fn exts(&self, sem: Sem) -> &[u32] {
        match sem {
            Sem::GR => std::slice::from_ref(&self.gr),
            Sem::CO => &self.co,
            Sem::PR => &self.pr,
            Sem::ST => &self.st,
            Sem::SST => &self.sst,
            Sem::STG => &self.stg,
            Sem::ID => std::slice::from_ref(&self.id),
        }
    }

    pub fn is_ext(&self, sem: Sem, s: u32) -> bool {
        self.exts(sem).contains(&s)
    }

    /// Exists an extension meeting `mask`.
    pub fn cred(&self, sem: Sem, mask: u32) -> bool {
        self.exts(sem).iter().any(|e| e & mask != 0)
    }

    /// Every extension meets `mask` (true when there is no extension).
    pub fn skep(&self, sem: Sem, mask: u32) -> bool {
        self.exts(sem).iter().all(|e| e & mask != 0)
    }

    pub fn is_cf(&self, s: u32) -> bool {
        s & self.plus[s as usize] == 0
    }
    pub fn is_adm(&self, s: u32) -> bool {
        self.adm.binary_search(&s).is_ok()
    }
    pub fn is_co(&self, s: u32) -> bool {
        self.co.binary_search(&s).is_ok()
    }
    pub fn is_st(&self, s: u32) -> bool {
        self.st.binary_search(&s).is_ok()
    }
}

pub fn mask_of(set: &[usize]) -> u32 {
    set.iter().fold(0u32, |m, i| m | (1 << i))
}

pub fn set_of(mask: u32) -> Vec<usize> {
    (0..32).filter(|i| mask & (1 << i) != 0).collect()
}

#[cfg(test)]
mod tests {
    use super::*;
    #[test]
    fn two_cycle() {
        let r = RefSem::new(&Abs::new(2, vec![(0, 1), (1, 0)])).unwrap();
        assert_eq!(r.gr, 0);
        assert_eq!(r.co.len(), 3);
        assert_eq!(r.pr.len(), 2);
        assert_eq!(r.st.len(), 2);
        assert_eq!(r.id, 0);
    }
    #[test]
    fn odd_cycle() {
        let r = RefSem::new(&Abs::new(3, vec![(0, 1), (1, 2), (2, 0)])).unwrap();
        assert!(r.st.is_empty());
        assert_eq!(r.pr, vec![0]);
        assert_eq!(r.stg.len(), 3);
    }
}
