//! Pure-Rust workload for `cargo +nightly miri run`: store histories and reader inputs with the
//! C12/C13 oracles (no file system, no FFI).  usage: miri_io <seed> <n_histories> <n_inputs>

fn main() {
    let a: Vec<String> = std::env::args().collect();
    let seed: u64 = a.get(1).and_then(|s| s.parse().ok()).unwrap_or(1);
    let nh: u64 = a.get(2).and_then(|s| s.parse().ok()).unwrap_or(20);
    let ni: u64 = a.get(3).and_then(|s| s.parse().ok()).unwrap_or(20);
    cverif::report::install_quiet_panic_hook();
    match cverif::props::store_io::miri_smoke(seed, nh, ni) {
        Ok((ops, inputs)) => println!("MIRI-OK store_operations={} reader_inputs={}", ops, inputs),
        Err(e) => {
            println!("MIRI-VIOLATION {}", e);
            std::process::exit(1);
        }
    }
}
