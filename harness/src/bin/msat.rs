//! msat: a monitor "external SAT solver" (DESIGN.md section 4.7).
//!
//! Reads a DIMACS CNF on stdin, validates it strictly, appends one JSON line describing what it
//! received to the log file, solves it with the `cadical` crate and replies in SAT-competition
//! format, shaped (or deliberately broken) by its command-line options:
//!
//!   log=<path>            where to append the JSON line (default $MSAT_LOG, else none)
//!   state=<dir>           directory holding the invocation counter (default $MSAT_STATE)
//!   pad=<bytes>[,after]   comment volume before (default) or after the verdict
//!   errpad=<bytes>[,after] diagnostic volume on *stderr* before (default) or after the reply on stdout
//!   vsplit=<k>            literals per `v` line (0 = all on one line)
//!   crlf                  CRLF line ends
//!   mode=early-out        write the padding before reading stdin
//!   mode=slow-read:<ms>   read stdin in 4 KiB chunks with a pause
//!   mode=no-read          exit without reading stdin (nothing is printed)
//!   mode=close-stdout-early   print the reply, close stdout, keep running 200 ms
//!   fault=<kind>@<k>      misbehave at invocation number k (1-based; `*` = always):
//!                         exit-silent | status-only | truncated-model | truncated-model-midnumber |
//!                         garbage-line | garbage-after-reply | unknown-status | wrong-var | double-status |
//!                         double-status-unsat-first | crash | exit-code | zero-mid-model |
//!                         truncated-model-after-minus | truncated-model-at-byte (with cut=<permille>) |
//!                         non-utf8-comment (an honest reply preceded by a comment line that is not UTF-8) |
//!                         non-utf8-garbage-line (binary garbage before, inside or after an honest reply) |
//!                         non-utf8-byte-in-value-line (first of two value lines torn by a stray byte)
//!   exit=<n>|conv         exit status of the process: a number, or `conv` = the SAT-competition convention
//!                         (10 satisfiable, 20 unsatisfiable, 0 undecided), computed from what msat *decided*,
//!                         whatever the (possibly faulty) reply says; default 0 (3 for fault=exit-code)
//!   lenient               accept a malformed instance (ignore header mismatches) instead of failing

use std::io::{Read, Write};
use std::time::Instant;

struct Opts {
    log: Option<String>,
    state: Option<String>,
    pad: usize,
    pad_after: bool,
    errpad: usize,
    errpad_after: bool,
    cut_permille: usize,
    vsplit: usize,
    crlf: bool,
    mode: String,
    slow_ms: u64,
    fault: Option<(String, Option<u64>)>,
    lenient: bool,
    exit: Option<String>,
}

fn parse_opts() -> Opts {
    let mut o = Opts {
        log: std::env::var("MSAT_LOG").ok(),
        state: std::env::var("MSAT_STATE").ok(),
        pad: 0,
        pad_after: false,
        errpad: 0,
        errpad_after: false,
        cut_permille: 500,
        vsplit: 0,
        crlf: false,
        mode: "normal".to_string(),
        slow_ms: 0,
        fault: None,
        lenient: false,
        exit: None,
    };
    for a in std::env::args().skip(1) {
        if let Some(v) = a.strip_prefix("log=") {
            o.log = Some(v.to_string());
        } else if let Some(v) = a.strip_prefix("state=") {
            o.state = Some(v.to_string());
        } else if let Some(v) = a.strip_prefix("pad=") {
            let (n, rest) = match v.split_once(',') {
                Some((n, r)) => (n, r),
                None => (v, "before"),
            };
            o.pad = n.parse().unwrap_or(0);
            o.pad_after = rest == "after";
        } else if let Some(v) = a.strip_prefix("errpad=") {
            let (n, rest) = match v.split_once(',') {
                Some((n, r)) => (n, r),
                None => (v, "before"),
            };
            o.errpad = n.parse().unwrap_or(0);
            o.errpad_after = rest == "after";
        } else if let Some(v) = a.strip_prefix("cut=") {
            o.cut_permille = v.parse().unwrap_or(500);
        } else if let Some(v) = a.strip_prefix("vsplit=") {
            o.vsplit = v.parse().unwrap_or(0);
        } else if a == "crlf" {
            o.crlf = true;
        } else if a == "lenient" {
            o.lenient = true;
        } else if let Some(v) = a.strip_prefix("exit=") {
            o.exit = Some(v.to_string());
        } else if let Some(v) = a.strip_prefix("mode=") {
            if let Some(ms) = v.strip_prefix("slow-read:") {
                o.mode = "slow-read".to_string();
                o.slow_ms = ms.parse().unwrap_or(1);
            } else {
                o.mode = v.to_string();
            }
        } else if let Some(v) = a.strip_prefix("fault=") {
            if let Some((k, at)) = v.split_once('@') {
                let at = if at == "*" { None } else { at.parse().ok() };
                o.fault = Some((k.to_string(), at));
            }
        }
    }
    o
}

fn next_invocation(state: &Option<String>) -> u64 {
    // sequential callers only (crustabri waits for each child): read-increment-write is enough
    let dir = match state {
        Some(d) => d,
        None => return 0,
    };
    let path = format!("{}/counter", dir);
    let cur: u64 = std::fs::read_to_string(&path)
        .ok()
        .and_then(|s| s.trim().parse().ok())
        .unwrap_or(0);
    let _ = std::fs::write(&path, format!("{}", cur + 1));
    cur + 1
}

struct Parsed {
    header: Option<(usize, usize)>,
    clauses: Vec<Vec<i32>>,
    max_var: usize,
    empty_clauses: usize,
    errors: Vec<String>,
}

fn parse_dimacs(text: &[u8]) -> Parsed {
    let mut p = Parsed {
        header: None,
        clauses: Vec::new(),
        max_var: 0,
        empty_clauses: 0,
        errors: Vec::new(),
    };
    let s = match std::str::from_utf8(text) {
        Ok(s) => s,
        Err(_) => {
            p.errors.push("not-utf8".to_string());
            return p;
        }
    };
    let mut cur: Vec<i32> = Vec::new();
    for (ln, line) in s.lines().enumerate() {
        let t = line.trim();
        if t.is_empty() {
            continue;
        }
        if t.starts_with('c') {
            continue;
        }
        if t.starts_with('p') {
            if p.header.is_some() {
                p.errors.push(format!("second-header-line-{}", ln + 1));
                continue;
            }
            if !p.clauses.is_empty() || !cur.is_empty() {
                p.errors.push("header-after-clauses".to_string());
            }
            let w: Vec<&str> = t.split_whitespace().collect();
            if w.len() != 4 || w[0] != "p" || w[1] != "cnf" {
                p.errors.push("bad-header".to_string());
                continue;
            }
            match (w[2].parse::<usize>(), w[3].parse::<usize>()) {
                (Ok(v), Ok(c)) => p.header = Some((v, c)),
                _ => p.errors.push("bad-header-numbers".to_string()),
            }
            continue;
        }
        if p.header.is_none() && !p.errors.iter().any(|e| e == "clause-before-header") {
            p.errors.push("clause-before-header".to_string());
        }
        for tok in t.split_whitespace() {
            match tok.parse::<i64>() {
                Ok(0) => {
                    if cur.is_empty() {
                        p.empty_clauses += 1;
                    }
                    p.clauses.push(std::mem::take(&mut cur));
                }
                Ok(l) => {
                    let v = l.unsigned_abs() as usize;
                    if v > i32::MAX as usize {
                        p.errors.push("literal-too-large".to_string());
                    } else {
                        p.max_var = p.max_var.max(v);
                        cur.push(l as i32);
                    }
                }
                Err(_) => {
                    if !p.errors.iter().any(|e| e.starts_with("not-a-literal")) {
                        p.errors.push(format!("not-a-literal:{}", tok.chars().take(12).collect::<String>()));
                    }
                }
            }
        }
    }
    if !cur.is_empty() {
        p.errors.push("last-clause-not-terminated".to_string());
    }
    match p.header {
        None => {
            if !p.errors.iter().any(|e| e.contains("header")) {
                p.errors.push("missing-header".to_string());
            }
        }
        Some((v, c)) => {
            if p.max_var > v {
                p.errors.push(format!("variable-{}-exceeds-header-{}", p.max_var, v));
            }
            if p.clauses.len() != c {
                p.errors.push(format!("clause-count-{}-differs-from-header-{}", p.clauses.len(), c));
            }
        }
    }
    p
}

fn json_escape(s: &str) -> String {
    let mut o = String::new();
    for c in s.chars() {
        match c {
            '"' => o.push_str("\\\""),
            '\\' => o.push_str("\\\\"),
            '\n' => o.push_str("\\n"),
            c if (c as u32) < 0x20 => o.push_str(&format!("\\u{:04x}", c as u32)),
            c => o.push(c),
        }
    }
    o
}

#[allow(clippy::too_many_arguments)]
fn write_log(
    o: &Opts,
    invocation: u64,
    bytes_in: usize,
    p: Option<&Parsed>,
    t: [u128; 5],
    reply_kind: &str,
    reply_bytes: usize,
    verdict: &str,
) {
    let path = match &o.log {
        Some(p) => p,
        None => return,
    };
    let (header, max_var, clauses, empty, errors) = match p {
        Some(p) => (
            match p.header {
                Some((v, c)) => format!("[{},{}]", v, c),
                None => "null".to_string(),
            },
            p.max_var,
            p.clauses.len(),
            p.empty_clauses,
            p.errors
                .iter()
                .map(|e| format!("\"{}\"", json_escape(e)))
                .collect::<Vec<_>>()
                .join(","),
        ),
        None => ("null".to_string(), 0, 0, 0, String::new()),
    };
    let line = format!(
        "{{\"pid\":{},\"invocation\":{},\"mode\":\"{}\",\"bytes_in\":{},\"header\":{},\"max_var\":{},\"clauses\":{},\"empty_clauses\":{},\"syntax_errors\":[{}],\"t_us\":{{\"start\":{},\"first_read\":{},\"eof\":{},\"first_write\":{},\"exit\":{}}},\"reply\":{{\"kind\":\"{}\",\"bytes\":{}}},\"verdict\":\"{}\"}}\n",
        std::process::id(), invocation, json_escape(&o.mode), bytes_in, header, max_var, clauses, empty, errors,
        t[0], t[1], t[2], t[3], t[4], json_escape(reply_kind), reply_bytes, verdict
    );
    if let Ok(mut f) = std::fs::OpenOptions::new().create(true).append(true).open(path) {
        let _ = f.write_all(line.as_bytes());
    }
}

fn pad_bytes(n: usize, eol: &str) -> Vec<u8> {
    // comment lines of 64 characters
    let mut v = Vec::with_capacity(n + 80);
    let line = format!("c {}{}", "x".repeat(62 - eol.len().min(2)), eol);
    while v.len() < n {
        v.extend_from_slice(line.as_bytes());
    }
    v
}

fn main() {
    let o = parse_opts();
    let t0 = Instant::now();
    let us = |t: &Instant| t.elapsed().as_micros();
    let invocation = next_invocation(&o.state);
    let eol = if o.crlf { "\r\n" } else { "\n" };
    let fault_now: Option<String> = match &o.fault {
        Some((k, None)) => Some(k.clone()),
        Some((k, Some(at))) if *at == invocation => Some(k.clone()),
        _ => None,
    };
    let stdout = std::io::stdout();
    let mut out = stdout.lock();
    let mut written = 0usize;
    let mut t_first_write: u128 = 0;
    let mut emit = |out: &mut std::io::StdoutLock, b: &[u8], written: &mut usize, tfw: &mut u128| -> bool {
        if *tfw == 0 {
            *tfw = us(&t0).max(1);
        }
        match out.write_all(b) {
            Ok(()) => {
                *written += b.len();
                true
            }
            Err(_) => false,
        }
    };

    if o.mode == "no-read" {
        write_log(&o, invocation, 0, None, [0, 0, 0, 0, us(&t0)], "none", 0, "none");
        std::process::exit(0);
    }
    if o.mode == "early-out" && o.pad > 0 && !o.pad_after {
        let p = pad_bytes(o.pad, eol);
        emit(&mut out, &p, &mut written, &mut t_first_write);
        let _ = out.flush();
    }
    // read stdin
    let mut input: Vec<u8> = Vec::new();
    let mut t_first_read: u128 = 0;
    {
        let stdin = std::io::stdin();
        let mut lock = stdin.lock();
        let mut buf = vec![0u8; 4096];
        loop {
            match lock.read(&mut buf) {
                Ok(0) => break,
                Ok(n) => {
                    if t_first_read == 0 {
                        t_first_read = us(&t0).max(1);
                    }
                    input.extend_from_slice(&buf[..n]);
                    if o.mode == "slow-read" {
                        std::thread::sleep(std::time::Duration::from_millis(o.slow_ms));
                    }
                }
                Err(_) => break,
            }
        }
    }
    let t_eof = us(&t0);
    let parsed = parse_dimacs(&input);
    if !parsed.errors.is_empty() && !o.lenient {
        // answer like a strict real solver: complain on stderr, no verdict, exit 1
        eprintln!("msat: parse error: {}", parsed.errors.join("; "));
        write_log(&o, invocation, input.len(), Some(&parsed), [0, t_first_read, t_eof, 0, us(&t0)], "parse-error", 0, "none");
        std::process::exit(1);
    }
    // solve
    let mut solver: cadical::Solver = cadical::Solver::new();
    let n_vars = parsed.header.map(|h| h.0).unwrap_or(0).max(parsed.max_var);
    for c in parsed.clauses.iter() {
        solver.add_clause(c.iter().copied());
    }
    let verdict = solver.solve();
    let verdict_name = match verdict {
        Some(true) => "sat",
        Some(false) => "unsat",
        None => "unknown",
    };
    let model: Vec<i32> = if verdict == Some(true) {
        (1..=n_vars as i32)
            .map(|v| if solver.value(v) == Some(true) { v } else { -v })
            .collect()
    } else {
        vec![]
    };
    // build the reply
    let mut reply: Vec<u8> = Vec::new();
    let mut kind = "honest".to_string();
    let status_line = |sat: bool| -> String {
        format!("s {}{}", if sat { "SATISFIABLE" } else { "UNSATISFIABLE" }, eol)
    };
    let v_lines = |lits: &[i32], terminate: bool| -> String {
        let mut s = String::new();
        let chunk = if o.vsplit == 0 { lits.len().max(1) } else { o.vsplit };
        let mut toks: Vec<String> = lits.iter().map(|l| l.to_string()).collect();
        if terminate {
            toks.push("0".to_string());
        }
        if toks.is_empty() {
            return s;
        }
        for c in toks.chunks(chunk) {
            s.push_str("v ");
            s.push_str(&c.join(" "));
            s.push_str(eol);
        }
        s
    };
    if o.pad > 0 && !o.pad_after && o.mode != "early-out" {
        reply.extend_from_slice(&pad_bytes(o.pad, eol));
    }
    match fault_now.as_deref() {
        None => {
            match verdict {
                Some(true) => {
                    reply.extend_from_slice(status_line(true).as_bytes());
                    reply.extend_from_slice(v_lines(&model, true).as_bytes());
                }
                Some(false) => reply.extend_from_slice(status_line(false).as_bytes()),
                None => reply.extend_from_slice(format!("s UNKNOWN{}", eol).as_bytes()),
            }
        }
        Some(k) => {
            kind = format!("fault:{}", k);
            // kinds that cut a model short only make sense for a satisfiable instance; otherwise the
            // fault degrades to "no reply" so that msat fails to decide but never lies
            let needs_model = matches!(
                k,
                "status-only" | "truncated-model" | "truncated-model-midnumber" | "wrong-var" | "crash" | "zero-mid-model" | "non-utf8-byte-in-value-line"
                    | "truncated-model-after-minus" | "truncated-model-at-byte"
            );
            let k = if needs_model && verdict != Some(true) {
                kind = format!("fault:{}-degraded-to-silence", k);
                if k == "crash" {
                    "crash-silent"
                } else {
                    "exit-silent"
                }
            } else {
                k
            };
            match k {
                "crash-silent" => reply.clear(),
                "exit-silent" => reply.clear(),
                "exit-code" => {
                    reply.clear();
                }
                "status-only" => reply.extend_from_slice(status_line(true).as_bytes()),
                "truncated-model" => {
                    reply.extend_from_slice(status_line(true).as_bytes());
                    let lits: Vec<i32> = if model.is_empty() { (1..=n_vars.max(1) as i32).collect() } else { model.clone() };
                    let cut = lits.len().div_ceil(2).max(1).min(lits.len());
                    reply.extend_from_slice(v_lines(&lits[..cut], false).as_bytes());
                }
                "truncated-model-midnumber" => {
                    reply.extend_from_slice(status_line(true).as_bytes());
                    let lits: Vec<i32> = if model.is_empty() { (1..=n_vars.max(1) as i32).collect() } else { model.clone() };
                    let mut s = v_lines(&lits, true);
                    // cut before the terminating zero and its line end: the last number is left unterminated
                    while s.ends_with('\n') || s.ends_with('\r') || s.ends_with('0') || s.ends_with(' ') {
                        s.pop();
                    }
                    reply.extend_from_slice(s.as_bytes());
                }
                "garbage-line" => {
                    // (every other invocation: a line that starts like a comment without being one)
                    let g = if (invocation + std::process::id() as u64) % 2 == 0 { "hello, this is not a solver reply" } else { "core dumped (signal 11) in cadical::analyze" };
                    reply.extend_from_slice(format!("{}{}", g, eol).as_bytes());
                    match verdict {
                        Some(true) => {
                            reply.extend_from_slice(status_line(true).as_bytes());
                            reply.extend_from_slice(v_lines(&model, true).as_bytes());
                        }
                        _ => reply.extend_from_slice(status_line(false).as_bytes()),
                    }
                }
                "garbage-after-reply" => {
                    // an honest reply followed by a line that is neither a comment, a status nor values
                    match verdict {
                        Some(true) => {
                            reply.extend_from_slice(status_line(true).as_bytes());
                            reply.extend_from_slice(v_lines(&model, true).as_bytes());
                        }
                        _ => reply.extend_from_slice(status_line(false).as_bytes()),
                    }
                    let g = if (invocation + std::process::id() as u64) % 2 == 0 { "*** internal error: out of memory ***" } else { "crashed: out of memory" };
                    reply.extend_from_slice(format!("{}{}", g, eol).as_bytes());
                }
                "double-status-unsat-first" => {
                    reply.extend_from_slice(status_line(false).as_bytes());
                    reply.extend_from_slice(status_line(true).as_bytes());
                    let lits: Vec<i32> = if model.is_empty() { (1..=n_vars.max(1) as i32).collect() } else { model.clone() };
                    reply.extend_from_slice(v_lines(&lits, true).as_bytes());
                }
                "truncated-model-after-minus" | "truncated-model-at-byte" => {
                    // the honest reply cut inside the value lines: right after the minus sign of the last
                    // negative literal, or at the byte position given by cut=<permille>
                    reply.extend_from_slice(status_line(true).as_bytes());
                    let lits: Vec<i32> = if model.is_empty() { (1..=n_vars.max(1) as i32).map(|v| -v).collect() } else { model.clone() };
                    let full = v_lines(&lits, true);
                    let cut = if k == "truncated-model-after-minus" {
                        match full.rfind('-') {
                            Some(p) => p + 1,
                            None => full.trim_end().len().saturating_sub(2),
                        }
                    } else {
                        // never the whole text: at least the final "0" and its line end are lost
                        let body = full.trim_end().len().saturating_sub(1);
                        (body * o.cut_permille.min(1000)) / 1000
                    };
                    reply.extend_from_slice(&full.as_bytes()[..cut.min(full.len())]);
                }
                "zero-mid-model" => {
                    // a value line with a terminating zero in its middle and another at its end
                    reply.extend_from_slice(status_line(true).as_bytes());
                    let lits: Vec<i32> = if model.is_empty() { (1..=n_vars.max(2) as i32).collect() } else { model.clone() };
                    let cut = (lits.len() / 2).max(1).min(lits.len());
                    let mut line = String::from("v");
                    for l in &lits[..cut] {
                        line.push_str(&format!(" {}", l));
                    }
                    line.push_str(" 0");
                    for l in &lits[cut..] {
                        line.push_str(&format!(" {}", l));
                    }
                    line.push_str(" 0");
                    line.push_str(eol);
                    reply.extend_from_slice(line.as_bytes());
                }
                "non-utf8-comment" => {
                    reply.extend_from_slice(b"c solver banner \xff\xfe\xc3\x28 build");
                    reply.extend_from_slice(eol.as_bytes());
                    match verdict {
                        Some(true) => {
                            reply.extend_from_slice(status_line(true).as_bytes());
                            reply.extend_from_slice(v_lines(&model, true).as_bytes());
                        }
                        Some(false) => reply.extend_from_slice(status_line(false).as_bytes()),
                        None => reply.extend_from_slice(format!("s UNKNOWN{}", eol).as_bytes()),
                    }
                }
                "non-utf8-garbage-line" => {
                    // an honest reply with one line of binary garbage (neither comment, status nor values, and not
                    // UTF-8) before it, between status and values, or after it
                    let garbage: &[u8] = b"\x7fELF\x02\x01\xff\xfe core \xc3\x28\xa0\xa1";
                    let place = (invocation + std::process::id() as u64) % 3;
                    if place == 0 {
                        reply.extend_from_slice(garbage);
                        reply.extend_from_slice(eol.as_bytes());
                    }
                    match verdict {
                        Some(true) => {
                            reply.extend_from_slice(status_line(true).as_bytes());
                            if place == 1 {
                                reply.extend_from_slice(garbage);
                                reply.extend_from_slice(eol.as_bytes());
                            }
                            reply.extend_from_slice(v_lines(&model, true).as_bytes());
                        }
                        Some(false) => reply.extend_from_slice(status_line(false).as_bytes()),
                        None => reply.extend_from_slice(format!("s UNKNOWN{}", eol).as_bytes()),
                    }
                    if place != 0 && !(place == 1 && verdict == Some(true)) {
                        reply.extend_from_slice(garbage);
                        reply.extend_from_slice(eol.as_bytes());
                    }
                }
                "non-utf8-byte-in-value-line" => {
                    // the model on two value lines, the first one torn by a stray byte that is not UTF-8
                    reply.extend_from_slice(status_line(true).as_bytes());
                    let lits: Vec<i32> = if model.is_empty() { (1..=n_vars.max(1) as i32).collect() } else { model.clone() };
                    let half = lits.len().div_ceil(2).max(1).min(lits.len());
                    let mut first = String::from("v");
                    for l in &lits[..half] {
                        first.push_str(&format!(" {}", l));
                    }
                    let mut fb = first.into_bytes();
                    let at = 2 + (fb.len() - 2) / 2;
                    fb.insert(at, 0xff);
                    reply.extend_from_slice(&fb);
                    reply.extend_from_slice(eol.as_bytes());
                    let mut second = String::from("v");
                    for l in &lits[half..] {
                        second.push_str(&format!(" {}", l));
                    }
                    second.push_str(" 0");
                    reply.extend_from_slice(second.as_bytes());
                    reply.extend_from_slice(eol.as_bytes());
                }
                "unknown-status" => reply.extend_from_slice(format!("s UNKNOWN{}", eol).as_bytes()),
                "wrong-var" => {
                    reply.extend_from_slice(status_line(true).as_bytes());
                    let mut lits = model.clone();
                    lits.push(n_vars as i32 + 7);
                    reply.extend_from_slice(v_lines(&lits, true).as_bytes());
                }
                "double-status" => {
                    reply.extend_from_slice(status_line(true).as_bytes());
                    reply.extend_from_slice(status_line(false).as_bytes());
                }
                "crash" => {
                    // half of an honest SAT reply, then SIGKILL
                    let mut full = status_line(true).into_bytes();
                    let lits: Vec<i32> = if model.is_empty() { (1..=n_vars.max(1) as i32).collect() } else { model.clone() };
                    full.extend_from_slice(v_lines(&lits, true).as_bytes());
                    let cut = status_line(true).len() + (full.len() - status_line(true).len()) / 2;
                    reply.extend_from_slice(&full[..cut.min(full.len())]);
                }
                _ => {}
            }
        }
    }
    if o.pad > 0 && o.pad_after {
        reply.extend_from_slice(&pad_bytes(o.pad, eol));
    }
    // the log line is written before the reply: a reply that blocks forever must not hide what was received
    write_log(
        &o,
        invocation,
        input.len(),
        Some(&parsed),
        [0, t_first_read, t_eof, t_first_write, us(&t0)],
        &kind,
        written + reply.len(),
        verdict_name,
    );
    let err_volume = |n: usize| {
        // a verbose solver's diagnostics: lines of 64 bytes on stderr (blocks if nobody drains it)
        let mut e = std::io::stderr();
        let line = [b'#'; 63];
        let mut left = n;
        while left > 0 {
            let k = left.min(64);
            let _ = e.write_all(&line[..k - 1]);
            let _ = e.write_all(b"\n");
            left -= k;
        }
        let _ = e.flush();
    };
    if o.errpad > 0 && !o.errpad_after {
        err_volume(o.errpad);
    }
    let _ = emit(&mut out, &reply, &mut written, &mut t_first_write);
    let _ = out.flush();
    if o.errpad > 0 && o.errpad_after {
        err_volume(o.errpad);
    }
    match fault_now.as_deref() {
        Some("crash") => {
            unsafe {
                libc::kill(libc::getpid(), libc::SIGKILL);
            }
        }
        Some("exit-code") if o.exit.is_none() => std::process::exit(3),
        _ => {}
    }
    let exit_code: Option<i32> = match o.exit.as_deref() {
        Some("conv") => Some(match verdict {
            Some(true) => 10,
            Some(false) => 20,
            None => 0,
        }),
        Some(n) => n.parse().ok(),
        None => None,
    };
    if o.mode == "close-stdout-early" {
        drop(out);
        unsafe {
            libc::close(1);
        }
        std::thread::sleep(std::time::Duration::from_millis(200));
    }
    if let Some(c) = exit_code {
        std::process::exit(c);
    }
}
