fn main() {}
