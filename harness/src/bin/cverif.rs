//! cverif: shard runner.  `cverif run <PROP> --tier quick --seed 1 --shard 0/16 --out DIR ...`

use cverif::props;
use cverif::report::{install_quiet_panic_hook, Ctx, Tier};
use std::path::PathBuf;
use std::time::Duration;

fn usage() -> ! {
    eprintln!(
        "usage: cverif run <PROP> --tier quick|thorough --seed N --shard i/N --out DIR --replays DIR \
         --bin-dir DIR --repo-bin-dir DIR [--budget-s S]\n       cverif replay <FILE> --out DIR --bin-dir DIR --repo-bin-dir DIR\n       cverif merge-hashes <FILE>..."
    );
    std::process::exit(2)
}

struct Opts {
    tier: Tier,
    seed: u64,
    shard: usize,
    nshards: usize,
    out: PathBuf,
    replays: PathBuf,
    bin_dir: PathBuf,
    repo_bin_dir: PathBuf,
    budget: Duration,
    corpus: PathBuf,
}

fn parse_opts(args: &[String]) -> Opts {
    let mut o = Opts {
        tier: Tier::Quick,
        seed: 1,
        shard: 0,
        nshards: 1,
        out: PathBuf::from("."),
        replays: PathBuf::from("."),
        bin_dir: std::env::current_exe()
            .ok()
            .and_then(|p| p.parent().map(|p| p.to_path_buf()))
            .unwrap_or_else(|| PathBuf::from(".")),
        repo_bin_dir: PathBuf::from("."),
        budget: Duration::from_secs(3600),
        corpus: PathBuf::from("/verif/corpus"),
    };
    let mut i = 0;
    while i < args.len() {
        let val = |i: usize| -> &String { args.get(i + 1).unwrap_or_else(|| usage()) };
        match args[i].as_str() {
            "--tier" => {
                o.tier = match val(i).as_str() {
                    "quick" => Tier::Quick,
                    "thorough" => Tier::Thorough,
                    _ => usage(),
                };
                i += 2;
            }
            "--seed" => {
                o.seed = val(i).parse().unwrap_or_else(|_| usage());
                i += 2;
            }
            "--shard" => {
                let (a, b) = val(i).split_once('/').unwrap_or_else(|| usage());
                o.shard = a.parse().unwrap_or_else(|_| usage());
                o.nshards = b.parse().unwrap_or_else(|_| usage());
                i += 2;
            }
            "--out" => {
                o.out = PathBuf::from(val(i));
                i += 2;
            }
            "--replays" => {
                o.replays = PathBuf::from(val(i));
                i += 2;
            }
            "--bin-dir" => {
                o.bin_dir = PathBuf::from(val(i));
                i += 2;
            }
            "--repo-bin-dir" => {
                o.repo_bin_dir = PathBuf::from(val(i));
                i += 2;
            }
            "--corpus" => {
                o.corpus = PathBuf::from(val(i));
                i += 2;
            }
            "--budget-s" => {
                o.budget = Duration::from_secs(val(i).parse().unwrap_or_else(|_| usage()));
                i += 2;
            }
            _ => usage(),
        }
    }
    o
}

fn main() {
    let args: Vec<String> = std::env::args().collect();
    if args.len() < 2 {
        usage();
    }
    match args[1].as_str() {
        "run" => {
            if args.len() < 3 {
                usage();
            }
            let prop = args[2].clone();
            let o = parse_opts(&args[3..]);
            install_quiet_panic_hook();
            let mut ctx = Ctx::new(
                &prop,
                o.tier,
                o.seed,
                o.shard,
                o.nshards,
                o.out,
                o.replays,
                o.bin_dir,
                o.repo_bin_dir,
                o.budget,
            );
            ctx.corpus_dir = o.corpus;
            props::run_corpus(&mut ctx, &prop);
            if !props::run(&mut ctx, &prop) {
                eprintln!("HARNESS-ERROR unknown property {}", prop);
                std::process::exit(2);
            }
            ctx.finish();
        }
        "replay" => {
            if args.len() < 3 {
                usage();
            }
            let file = args[2].clone();
            let o = parse_opts(&args[3..]);
            let text = std::fs::read_to_string(&file).unwrap_or_else(|e| {
                eprintln!("HARNESS-ERROR cannot read {}: {}", file, e);
                std::process::exit(2)
            });
            let v: serde_json::Value = serde_json::from_str(&text).unwrap_or_else(|e| {
                eprintln!("HARNESS-ERROR cannot parse {}: {}", file, e);
                std::process::exit(2)
            });
            let prop = v["property"].as_str().unwrap_or("").to_string();
            install_quiet_panic_hook();
            let mut ctx = Ctx::new(
                &prop,
                o.tier,
                o.seed,
                0,
                1,
                o.out,
                o.replays,
                o.bin_dir,
                o.repo_bin_dir,
                o.budget,
            );
            ctx.replay_mode = true;
            println!("REPLAY property={} signature={}", prop, v["signature"]);
            println!("REPLAY recorded-detail={}", v["detail"]);
            match props::replay(&mut ctx, &prop, &v["case"], &v["detail"], v["signature"].as_str().unwrap_or("")) {
                Ok(()) => {
                    let n = ctx.n_violations();
                    println!("REPLAY violations-now={}", n);
                    ctx.finish();
                    std::process::exit(if n > 0 { 1 } else { 0 });
                }
                Err(e) => {
                    eprintln!("HARNESS-ERROR replay: {}", e);
                    std::process::exit(2);
                }
            }
        }
        "ext-call" => {
            if args.len() < 3 {
                usage();
            }
            install_quiet_panic_hook();
            let text = match args[2].strip_prefix('@') {
                Some(path) => std::fs::read_to_string(path).unwrap_or_else(|_| usage()),
                None => args[2].clone(),
            };
            let v: serde_json::Value = serde_json::from_str(&text).unwrap_or_else(|_| usage());
            let spec = cverif::extcall::ExtSpec::from_json(&v).unwrap_or_else(|| usage());
            let r = cverif::extcall::perform(&spec);
            println!("{}", r.to_json());
        }
        "merge-hashes" => {
            let mut set = std::collections::HashSet::new();
            for f in &args[2..] {
                if let Ok(b) = std::fs::read(f) {
                    for c in b.chunks_exact(8) {
                        set.insert(u64::from_le_bytes(c.try_into().unwrap()));
                    }
                }
            }
            println!("{}", set.len());
        }
        _ => usage(),
    }
}
