//! Presentations: the concrete ways an abstract graph is handed to crustabri
//! (API calls, `new_with_labels`, the two readers, histories with removals).

use crate::refsem::Abs;
use crate::rng::Rng;
use crustabri::aa::{AAFramework, ArgumentSet};
use crustabri::io::{AspartixReader, Iccma23Reader, InstanceReader};
use crustabri::utils::LabelType;
use serde_json::{json, Value};
use std::collections::HashMap;

pub trait HLabel: LabelType + Ord + 'static {
    const KIND: &'static str;
    fn to_json(&self) -> Value;
    fn from_json(v: &Value) -> Option<Self>;
    /// The k-th label of the canonical universe.
    fn nth(k: usize) -> Self;
    /// The k-th label of an *unusual* universe (legal for the store, which accepts any label: empty and
    /// blank strings, strings that look like syntax, very long ones, non-ASCII; 0 and huge numbers).
    fn odd(k: usize) -> Self;
    /// A framework with arguments nth(0..m) and the given attacks, obtained by *reading a text*
    /// with the reader for this label type (ICCMA'23 for usize, Aspartix for String).
    fn via_reader(m: usize, atts: &[(Self, Self)]) -> Result<crustabri::aa::AAFramework<Self>, String>;
}

impl HLabel for usize {
    const KIND: &'static str = "usize";
    fn to_json(&self) -> Value {
        json!(self)
    }
    fn from_json(v: &Value) -> Option<Self> {
        v.as_u64().map(|x| x as usize)
    }
    fn nth(k: usize) -> Self {
        k + 1
    }
    fn odd(k: usize) -> Self {
        const ODD: [usize; 8] = [0, usize::MAX, usize::MAX - 1, u32::MAX as usize, u32::MAX as usize + 1, 10_000_000_000, 1 << 63, 9_999_999_999];
        if k < ODD.len() { ODD[k] } else { usize::MAX - 7 * k }
    }
    fn via_reader(m: usize, atts: &[(Self, Self)]) -> Result<crustabri::aa::AAFramework<Self>, String> {
        use crustabri::io::InstanceReader;
        let mut text = format!("p af {}\n", m);
        for (a, b) in atts {
            text.push_str(&format!("{} {}\n", a, b));
        }
        crustabri::io::Iccma23Reader::default().read(&mut text.as_bytes()).map_err(|e| format!("{:#}", e))
    }
}

impl HLabel for String {
    const KIND: &'static str = "string";
    fn to_json(&self) -> Value {
        json!(self)
    }
    fn from_json(v: &Value) -> Option<Self> {
        v.as_str().map(|s| s.to_string())
    }
    fn nth(k: usize) -> Self {
        format!("a{}", k)
    }
    fn odd(k: usize) -> Self {
        match k {
            0 => String::new(),
            1 => " ".to_string(),
            2 => "\t".to_string(),
            3 => "a b".to_string(),
            4 => "arg(a).".to_string(),
            5 => "x".repeat(300),
            6 => "\u{e9}t\u{e9}".to_string(),
            7 => "a\nb".to_string(),
            8 => "0".to_string(),
            _ => format!(" {} ", k),
        }
    }
    fn via_reader(m: usize, atts: &[(Self, Self)]) -> Result<crustabri::aa::AAFramework<Self>, String> {
        use crustabri::io::InstanceReader;
        let mut text = String::new();
        for k in 0..m {
            text.push_str(&format!("arg({}).\n", Self::nth(k)));
        }
        for (a, b) in atts {
            text.push_str(&format!("att({},{}).\n", a, b));
        }
        crustabri::io::AspartixReader::default().read(&mut text.as_bytes()).map_err(|e| format!("{:#}", e))
    }
}

#[derive(Clone, Debug, PartialEq, Eq)]
pub enum Op<L> {
    AddArg(L),
    DelArg(L),
    AddAtt(L, L),
    DelAtt(L, L),
}

impl<L: HLabel> Op<L> {
    pub fn to_json(&self) -> Value {
        match self {
            Op::AddArg(l) => json!(["+arg", l.to_json()]),
            Op::DelArg(l) => json!(["-arg", l.to_json()]),
            Op::AddAtt(a, b) => json!(["+att", a.to_json(), b.to_json()]),
            Op::DelAtt(a, b) => json!(["-att", a.to_json(), b.to_json()]),
        }
    }
    pub fn from_json(v: &Value) -> Option<Op<L>> {
        let a = v.as_array()?;
        let k = a.first()?.as_str()?;
        match k {
            "+arg" => Some(Op::AddArg(L::from_json(a.get(1)?)?)),
            "-arg" => Some(Op::DelArg(L::from_json(a.get(1)?)?)),
            "+att" => Some(Op::AddAtt(
                L::from_json(a.get(1)?)?,
                L::from_json(a.get(2)?)?,
            )),
            "-att" => Some(Op::DelAtt(
                L::from_json(a.get(1)?)?,
                L::from_json(a.get(2)?)?,
            )),
            _ => None,
        }
    }
    pub fn kind(&self) -> &'static str {
        match self {
            Op::AddArg(_) => "+arg",
            Op::DelArg(_) => "-arg",
            Op::AddAtt(..) => "+att",
            Op::DelAtt(..) => "-att",
        }
    }
}

#[derive(Clone, Debug)]
pub enum Pres {
    /// ICCMA'23 text; the label of abstract argument i is i+1.
    Iccma { text: String },
    /// Aspartix text; `labels[i]` is the name of abstract argument i.
    Apx { text: String, labels: Vec<String> },
    /// API history over usize labels. With `nwl`, the leading run of AddArg operations is
    /// performed through `ArgumentSet::new_with_labels`.
    OpsU {
        nwl: bool,
        ops: Vec<Op<usize>>,
        labels: Vec<usize>,
    },
    OpsS {
        nwl: bool,
        ops: Vec<Op<String>>,
        labels: Vec<String>,
    },
}

impl Pres {
    pub fn kind(&self) -> &'static str {
        match self {
            Pres::Iccma { .. } => "iccma",
            Pres::Apx { .. } => "apx",
            Pres::OpsU { nwl: true, .. } => "nwl-usize",
            Pres::OpsU { nwl: false, .. } => "ops-usize",
            Pres::OpsS { nwl: true, .. } => "nwl-string",
            Pres::OpsS { nwl: false, .. } => "ops-string",
        }
    }
    pub fn is_usize(&self) -> bool {
        matches!(self, Pres::Iccma { .. } | Pres::OpsU { .. })
    }
    pub fn to_json(&self) -> Value {
        match self {
            Pres::Iccma { text } => json!({"kind": "iccma", "text": text}),
            Pres::Apx { text, labels } => json!({"kind": "apx", "text": text, "labels": labels}),
            Pres::OpsU { nwl, ops, labels } => json!({
                "kind": "ops-usize", "nwl": nwl,
                "ops": ops.iter().map(|o| o.to_json()).collect::<Vec<_>>(),
                "labels": labels}),
            Pres::OpsS { nwl, ops, labels } => json!({
                "kind": "ops-string", "nwl": nwl,
                "ops": ops.iter().map(|o| o.to_json()).collect::<Vec<_>>(),
                "labels": labels}),
        }
    }
    pub fn from_json(v: &Value) -> Option<Pres> {
        match v.get("kind")?.as_str()? {
            "iccma" => Some(Pres::Iccma {
                text: v.get("text")?.as_str()?.to_string(),
            }),
            "apx" => Some(Pres::Apx {
                text: v.get("text")?.as_str()?.to_string(),
                labels: v
                    .get("labels")?
                    .as_array()?
                    .iter()
                    .map(|x| x.as_str().map(|s| s.to_string()))
                    .collect::<Option<Vec<_>>>()?,
            }),
            "ops-usize" => Some(Pres::OpsU {
                nwl: v.get("nwl")?.as_bool()?,
                ops: v
                    .get("ops")?
                    .as_array()?
                    .iter()
                    .map(Op::<usize>::from_json)
                    .collect::<Option<Vec<_>>>()?,
                labels: v
                    .get("labels")?
                    .as_array()?
                    .iter()
                    .map(usize::from_json)
                    .collect::<Option<Vec<_>>>()?,
            }),
            "ops-string" => Some(Pres::OpsS {
                nwl: v.get("nwl")?.as_bool()?,
                ops: v
                    .get("ops")?
                    .as_array()?
                    .iter()
                    .map(Op::<String>::from_json)
                    .collect::<Option<Vec<_>>>()?,
                labels: v
                    .get("labels")?
                    .as_array()?
                    .iter()
                    .map(String::from_json)
                    .collect::<Option<Vec<_>>>()?,
            }),
            _ => None,
        }
    }
}

/// A crustabri framework together with the label of each abstract argument.
pub struct Built<T: HLabel> {
    pub af: AAFramework<T>,
    pub labels: Vec<T>,
    pub index_of: HashMap<T, usize>,
}

impl<T: HLabel> Built<T> {
    pub fn new(af: AAFramework<T>, labels: Vec<T>) -> Self {
        let index_of = labels
            .iter()
            .enumerate()
            .map(|(i, l)| (l.clone(), i))
            .collect();
        Built {
            af,
            labels,
            index_of,
        }
    }
}

pub fn apply_ops<T: HLabel>(nwl: bool, ops: &[Op<T>]) -> Result<AAFramework<T>, String> {
    let mut start = 0;
    let mut af = if nwl {
        let mut init = Vec::new();
        while start < ops.len() {
            if let Op::AddArg(l) = &ops[start] {
                init.push(l.clone());
                start += 1;
            } else {
                break;
            }
        }
        AAFramework::new_with_argument_set(ArgumentSet::new_with_labels(&init))
    } else {
        AAFramework::new_with_argument_set(ArgumentSet::new_with_labels(&[]))
    };
    let n_ops = ops.len() - start;
    for (i, op) in ops[start..].iter().enumerate() {
        // the framework is *looked at* while it is being built (read-only public observers, the
        // grounded extension among them): whatever an observer computes must not survive the next update
        let _ = n_ops;
        if i % 4 == 1 || matches!(op, Op::DelAtt(..) | Op::DelArg(_)) {
            let _ = af.grounded_extension();
            let _ = af.n_attacks();
            let _ = af.iter_attacks().count();
        }
        match op {
            Op::AddArg(l) => af.new_argument(l.clone()),
            Op::DelArg(l) => af
                .remove_argument(l)
                .map_err(|e| format!("presentation op failed: {:?}: {}", op.kind(), e))?,
            Op::AddAtt(a, b) => af
                .new_attack(a, b)
                .map_err(|e| format!("presentation op failed: {:?}: {}", op.kind(), e))?,
            Op::DelAtt(a, b) => af
                .remove_attack(a, b)
                .map_err(|e| format!("presentation op failed: {:?}: {}", op.kind(), e))?,
        }
    }
    Ok(af)
}

/// Marker put in front of the error when building the presentation made crustabri panic
/// (the store or a reader is broken: the business of C12/C13, not of the caller).
pub const PANIC_MARK: &str = "PANIC while building the presentation: ";

pub fn build_usize(p: &Pres) -> Result<Built<usize>, String> {
    match crate::report::catch(|| build_usize_inner(p)) {
        Ok(r) => r,
        Err(pi) => Err(format!("{}{} at {}", PANIC_MARK, pi.msg, pi.loc)),
    }
}

pub fn build_string(p: &Pres) -> Result<Built<String>, String> {
    match crate::report::catch(|| build_string_inner(p)) {
        Ok(r) => r,
        Err(pi) => Err(format!("{}{} at {}", PANIC_MARK, pi.msg, pi.loc)),
    }
}

fn build_usize_inner(p: &Pres) -> Result<Built<usize>, String> {
    match p {
        Pres::Iccma { text } => {
            let af = Iccma23Reader::default()
                .read(&mut text.as_bytes())
                .map_err(|e| format!("iccma reader rejected generated text: {:#}", e))?;
            let n = af.n_arguments();
            Ok(Built::new(af, (1..=n).collect()))
        }
        Pres::OpsU { nwl, ops, labels } => Ok(Built::new(apply_ops(*nwl, ops)?, labels.clone())),
        _ => Err("harness: presentation is not usize-labelled".to_string()),
    }
}

fn build_string_inner(p: &Pres) -> Result<Built<String>, String> {
    match p {
        Pres::Apx { text, labels } => {
            let af = AspartixReader::default()
                .read(&mut text.as_bytes())
                .map_err(|e| format!("aspartix reader rejected generated text: {:#}", e))?;
            Ok(Built::new(af, labels.clone()))
        }
        Pres::OpsS { nwl, ops, labels } => Ok(Built::new(apply_ops(*nwl, ops)?, labels.clone())),
        _ => Err("harness: presentation is not string-labelled".to_string()),
    }
}

/// Checks through the public observables that `built` presents exactly `abs`
/// (arguments and attack *set*).  A mismatch here is reported by the caller.
pub fn check_presents<T: HLabel>(built: &Built<T>, abs: &Abs) -> Result<(), String> {
    match crate::report::catch(|| check_presents_inner(built, abs)) {
        Ok(r) => r,
        Err(p) => Err(format!("{}{} at {}", PANIC_MARK, p.msg, p.loc)),
    }
}

fn check_presents_inner<T: HLabel>(built: &Built<T>, abs: &Abs) -> Result<(), String> {
    if built.af.n_arguments() != abs.n {
        return Err(format!(
            "n_arguments {} != {}",
            built.af.n_arguments(),
            abs.n
        ));
    }
    for l in built.labels.iter() {
        if built.af.argument_set().get_argument(l).is_err() {
            return Err(format!("label {} missing", l));
        }
    }
    let mut got: Vec<(usize, usize)> = Vec::new();
    for att in built.af.iter_attacks() {
        let a = built.index_of.get(att.attacker().label());
        let b = built.index_of.get(att.attacked().label());
        match (a, b) {
            (Some(a), Some(b)) => got.push((*a, *b)),
            _ => return Err("attack with an unknown endpoint".to_string()),
        }
    }
    got.sort();
    got.dedup();
    if got != abs.att_set() {
        return Err(format!("attack set differs: {:?} vs {:?}", got, abs.att_set()));
    }
    Ok(())
}

pub const PRES_KINDS: [&str; 9] = [
    "iccma", "iccma-dup", "apx", "api-u", "api-s", "nwl-u", "nwl-s", "sparse-u", "sparse-s",
];

fn string_names(n: usize, rng: &mut Rng) -> Vec<String> {
    let style = rng.below(4);
    (0..n)
        .map(|i| match style {
            0 => format!("a{}", i),
            1 => format!("x_{}", i * 7 + 3),
            2 => format!("_A{}b", i),
            _ => format!("Arg{}", n - i),
        })
        .collect()
}

fn usize_names(n: usize, rng: &mut Rng) -> Vec<usize> {
    match rng.below(3) {
        0 => (0..n).collect(),
        1 => (1..=n).rev().collect(),
        _ => {
            let mut p = rng.perm(4 * n + 3);
            p.truncate(n);
            p
        }
    }
}

fn plain_ops<L: HLabel>(abs: &Abs, labels: &[L], rng: &mut Rng, repeat_attacks: bool) -> Vec<Op<L>> {
    let mut ops = Vec::new();
    for i in rng.perm(abs.n) {
        ops.push(Op::AddArg(labels[i].clone()));
    }
    let mut atts = abs.att.clone();
    if repeat_attacks && !atts.is_empty() {
        for _ in 0..rng.below(3) {
            let a = *rng.pick(&atts);
            atts.push(a);
        }
    }
    rng.shuffle(&mut atts);
    for (a, b) in atts {
        ops.push(Op::AddAtt(labels[a].clone(), labels[b].clone()));
    }
    if rng.pct(30) {
        detour(abs, labels, rng, &mut ops);
    }
    ops
}

/// A detour at the end of a history: one real attack a->b is replaced by b->a and put back, so that
/// the framework passes through a *different* framework with the same numbers of arguments and
/// attacks (and is observed there, see `apply_ops`) two updates before it is complete.
fn detour<L: HLabel>(abs: &Abs, labels: &[L], rng: &mut Rng, ops: &mut Vec<Op<L>>) {
    let real: std::collections::BTreeSet<(usize, usize)> = abs.att.iter().copied().collect();
    // half of the detours: an argument attacks itself for a while (a self-attack declared and withdrawn)
    if abs.n > 0 && rng.pct(50) {
        let free: Vec<usize> = (0..abs.n).filter(|a| !real.contains(&(*a, *a))).collect();
        if !free.is_empty() {
            let a = *rng.pick(&free);
            ops.push(Op::AddAtt(labels[a].clone(), labels[a].clone()));
            ops.push(Op::DelAtt(labels[a].clone(), labels[a].clone()));
            return;
        }
    }
    let cands: Vec<(usize, usize)> = real.iter().copied().filter(|(a, b)| a != b && !real.contains(&(*b, *a))).collect();
    if cands.is_empty() {
        return;
    }
    let (a, b) = *rng.pick(&cands);
    ops.push(Op::DelAtt(labels[a].clone(), labels[b].clone()));
    ops.push(Op::AddAtt(labels[b].clone(), labels[a].clone()));
    ops.push(Op::DelAtt(labels[b].clone(), labels[a].clone()));
    ops.push(Op::AddAtt(labels[a].clone(), labels[b].clone()));
}

fn sparse_ops<L: HLabel>(abs: &Abs, labels: &[L], junk: &[L], rng: &mut Rng) -> Vec<Op<L>> {
    // all labels: real then junk
    let n = abs.n;
    let total = n + junk.len();
    let lab = |i: usize| -> L {
        if i < n {
            labels[i].clone()
        } else {
            junk[i - n].clone()
        }
    };
    let mut ops = Vec::new();
    for i in rng.perm(total) {
        ops.push(Op::AddArg(lab(i)));
    }
    // attacks: real ones, junk-incident ones, extra real ones (removed later)
    let real: std::collections::BTreeSet<(usize, usize)> = abs.att.iter().copied().collect();
    let mut adds: Vec<(usize, usize)> = real.iter().copied().collect();
    let mut extra: Vec<(usize, usize)> = Vec::new();
    if total > 0 {
        for _ in 0..(junk.len() * 2 + rng.below(3)) {
            let a = rng.below(total);
            let b = rng.below(total);
            if a >= n || b >= n {
                adds.push((a, b));
            } else if !real.contains(&(a, b)) && !extra.contains(&(a, b)) {
                extra.push((a, b));
                adds.push((a, b));
            }
        }
    }
    rng.shuffle(&mut adds);
    for (a, b) in adds {
        ops.push(Op::AddAtt(lab(a), lab(b)));
    }
    // removals in random order: junk arguments and extra attacks
    let mut rem: Vec<Op<L>> = Vec::new();
    for j in n..total {
        rem.push(Op::DelArg(lab(j)));
    }
    for (a, b) in extra {
        rem.push(Op::DelAtt(lab(a), lab(b)));
    }
    rng.shuffle(&mut rem);
    ops.extend(rem);
    // re-add one removed-and-restored real argument
    if n > 0 && rng.pct(50) {
        let r = rng.below(n);
        ops.push(Op::DelArg(lab(r)));
        ops.push(Op::AddArg(lab(r)));
        let mut inc: Vec<(usize, usize)> = real
            .iter()
            .copied()
            .filter(|(a, b)| *a == r || *b == r)
            .collect();
        rng.shuffle(&mut inc);
        for (a, b) in inc {
            ops.push(Op::AddAtt(lab(a), lab(b)));
        }
    }
    if rng.pct(50) {
        detour(abs, labels, rng, &mut ops);
    }
    ops
}

/// Builds a presentation of `abs` of the requested kind.
pub fn present(abs: &Abs, kind: &str, rng: &mut Rng) -> Pres {
    match kind {
        "iccma" | "iccma-dup" => {
            let mut text = String::new();
            if rng.pct(30) {
                text.push_str("# generated\n");
            }
            text.push_str(&format!("p af {}\n", abs.n));
            let mut atts = abs.att.clone();
            if kind == "iccma-dup" && !atts.is_empty() {
                for _ in 0..(1 + rng.below(4)) {
                    let a = *rng.pick(&atts);
                    atts.push(a);
                }
            }
            rng.shuffle(&mut atts);
            for (a, b) in atts {
                text.push_str(&format!("{} {}\n", a + 1, b + 1));
                if rng.pct(5) {
                    text.push_str("# c\n");
                }
            }
            Pres::Iccma { text }
        }
        "apx" => {
            let labels = string_names(abs.n, rng);
            let mut text = String::new();
            for i in rng.perm(abs.n) {
                text.push_str(&format!("arg({}).\n", labels[i]));
            }
            let mut atts = abs.att.clone();
            rng.shuffle(&mut atts);
            for (a, b) in atts {
                text.push_str(&format!("att({},{}).\n", labels[a], labels[b]));
            }
            Pres::Apx { text, labels }
        }
        "api-u" | "nwl-u" => {
            let labels = usize_names(abs.n, rng);
            let ops = plain_ops(abs, &labels, rng, true);
            Pres::OpsU {
                nwl: kind == "nwl-u",
                ops,
                labels,
            }
        }
        "api-s" | "nwl-s" => {
            let labels = string_names(abs.n, rng);
            let ops = plain_ops(abs, &labels, rng, true);
            Pres::OpsS {
                nwl: kind == "nwl-s",
                ops,
                labels,
            }
        }
        "sparse-u" => {
            let nj = 1 + rng.below(3);
            let mut all = usize_names(abs.n + nj, rng);
            let junk = all.split_off(abs.n);
            let ops = sparse_ops(abs, &all, &junk, rng);
            Pres::OpsU {
                nwl: rng.pct(30),
                ops,
                labels: all,
            }
        }
        "sparse-s" => {
            let nj = 1 + rng.below(3);
            let mut all = string_names(abs.n + nj, rng);
            let junk = all.split_off(abs.n);
            let ops = sparse_ops(abs, &all, &junk, rng);
            Pres::OpsS {
                nwl: rng.pct(30),
                ops,
                labels: all,
            }
        }
        _ => panic!("harness: unknown presentation kind {}", kind),
    }
}

/// Random presentation kind; `allow_dup` permits the duplicate-attack ICCMA variant.
pub fn random_kind(rng: &mut Rng, abs: &Abs) -> &'static str {
    let has_dup = {
        let mut v = abs.att.clone();
        v.sort();
        let l = v.len();
        v.dedup();
        v.len() != l
    };
    if has_dup {
        // only the ICCMA reader keeps duplicates; the other presentations would drop them silently
        return "iccma";
    }
    PRES_KINDS[rng.weighted(&[3, 2, 3, 2, 1, 1, 1, 3, 2])]
}
