//! Static cases: an abstract graph plus a concrete presentation, generated per family.

use crate::gen;
use crate::present::{self, Pres};
use crate::refsem::Abs;
use crate::rng::{Hasher64, Rng};
use serde_json::{json, Value};

#[derive(Clone, Debug)]
pub struct StaticCase {
    pub family: String,
    pub abs: Abs,
    pub pres: Pres,
}

impl StaticCase {
    pub fn to_json(&self) -> Value {
        json!({
            "family": self.family,
            "graph": gen::abs_to_json(&self.abs),
            "presentation": self.pres.to_json(),
        })
    }
    pub fn from_json(v: &Value) -> Option<StaticCase> {
        Some(StaticCase {
            family: v.get("family")?.as_str()?.to_string(),
            abs: gen::abs_from_json(v.get("graph")?)?,
            pres: Pres::from_json(v.get("presentation")?)?,
        })
    }
    pub fn short(&self) -> Value {
        json!({"family": self.family, "n": self.abs.n, "attacks": self.abs.att.len(), "presentation": self.pres.kind()})
    }
    pub fn is_sparse(&self) -> bool {
        match &self.pres {
            Pres::OpsU { ops, .. } => ops.iter().any(|o| matches!(o, present::Op::DelArg(_))),
            Pres::OpsS { ops, .. } => ops.iter().any(|o| matches!(o, present::Op::DelArg(_))),
            _ => false,
        }
    }
}

pub fn fam_hash(s: &str) -> u64 {
    let mut h = Hasher64::new();
    h.str(s);
    h.finish()
}

/// Size limits per family: (small families are judged by brute force).
pub struct GenLimits {
    pub er_max: usize,
    pub big_min: usize,
    pub big_max: usize,
}

impl Default for GenLimits {
    fn default() -> Self {
        GenLimits {
            er_max: 9,
            big_min: 20,
            big_max: 120,
        }
    }
}

/// Deterministically generates case `i` of `family`.
pub fn gen_case(family: &str, i: u64, seed: u64, lim: &GenLimits) -> StaticCase {
    let mut rng = Rng::from_path(&[seed, fam_hash(family), i]);
    let abs = match family {
        "all3" => gen::all_graph(3, i % gen::n_all_graphs(3)),
        "all2" => gen::all_graph(2, i % gen::n_all_graphs(2)),
        "all4" => gen::all_graph(4, i % gen::n_all_graphs(4)),
        "er" => gen::random_er(&mut rng, 1, lim.er_max),
        "er-small" => gen::random_er(&mut rng, 1, 6),
        "union" => gen::union_family(&mut rng, 12),
        "layered" => gen::layered_family(&mut rng, 13),
        "many-components" => gen::many_components(&mut rng),
        "stable-rich-over-64" => gen::stable_rich_over_64(&mut rng),
        "long-search" => {
            if rng.pct(34) {
                // k two-cycles a_i <-> b_i, a self-attacking hub attacked by every a_i (sometimes by some
                // b_i too), the hub attacking a tail of 1-2 arguments: the status of the tail is settled
                // only by the last of 2^k preferred extensions
                let k = rng.range(3, 6);
                let hub = 2 * k;
                let mut att: Vec<(usize, usize)> = Vec::new();
                for i in 0..k {
                    att.push((2 * i, 2 * i + 1));
                    att.push((2 * i + 1, 2 * i));
                    att.push((2 * i, hub));
                    if rng.pct(15) {
                        att.push((2 * i + 1, hub));
                    }
                }
                att.push((hub, hub));
                att.push((hub, hub + 1));
                let mut n = hub + 2;
                if rng.pct(40) {
                    att.push((hub + 1, hub + 2));
                    n += 1;
                }
                let g = crate::refsem::Abs::new(n, att);
                if rng.pct(50) { g } else { gen::shuffle_labels(&g, &mut rng) }
            } else if rng.pct(50) {
                let g = gen::lattice(&mut rng, 13);
                gen::shuffle_labels(&g, &mut rng)
            } else {
                let k = rng.range(3, 5);
                gen::adm_rich(&mut rng, k)
            }
        }
        "lattice" => {
            let g = gen::lattice(&mut rng, 9);
            gen::shuffle_labels(&g, &mut rng)
        }
        "dense" => {
            let g = gen::dense(&mut rng, 9);
            gen::shuffle_labels(&g, &mut rng)
        }
        "dup" => gen::dup(&mut rng, 2, 7),
        "big-union" => gen::big_union(&mut rng, lim.big_min, lim.big_max, 9),
        "big-conn" => gen::big_conn(&mut rng, lim.big_min, lim.big_max),
        // a small component with attacks next to a connected component of 64-150 arguments
        "big-two" => {
            let small = loop {
                let c = gen::small_component(&mut rng, 5);
                if !c.att.is_empty() {
                    break c;
                }
            };
            let big = gen::big_conn(&mut rng, 64, lim.big_max.max(90).min(150));
            if rng.pct(50) {
                // ids of the small component first (components are extracted by increasing smallest id)
                let mut att = small.att.clone();
                for (a, b) in big.att.iter() {
                    att.push((small.n + a, small.n + b));
                }
                crate::refsem::Abs::new(small.n + big.n, att)
            } else {
                gen::union_of(&[small, big], &mut rng)
            }
        }
        "closed-form" => gen::closed_form(&mut rng, lim.big_min, lim.big_max).0,
        "empty" => Abs::new(0, vec![]),
        _ => panic!("harness: unknown family {}", family),
    };
    let kind = if family == "empty" {
        *rng.pick(&["iccma", "apx", "api-u", "api-s"])
    } else if family.starts_with("all") && i % 3 == 0 {
        "iccma"
    } else {
        present::random_kind(&mut rng, &abs)
    };
    let kind = if family == "dup" && rng.pct(70) {
        "iccma-dup"
    } else {
        kind
    };
    let pres = present::present(&abs, kind, &mut rng);
    StaticCase {
        family: family.to_string(),
        abs,
        pres,
    }
}
