//! Independent CNF reference: truth table (few variables) and a small recursive DPLL.

use crustabri::sat::{Literal, SatSolver, SolvingListener, SolvingResult};

/// Decides satisfiability of `clauses` under `assumptions`; returns a total model over 1..=n_vars.
pub fn dpll(n_vars: usize, clauses: &[Vec<isize>], assumptions: &[isize]) -> Option<Vec<bool>> {
    let mut assign: Vec<i8> = vec![0; n_vars + 1]; // 0 unassigned, 1 true, -1 false
    for a in assumptions {
        let v = a.unsigned_abs();
        if v > n_vars {
            panic!("harness: dpll assumption beyond n_vars");
        }
        let want = if *a > 0 { 1 } else { -1 };
        if assign[v] != 0 && assign[v] != want {
            return None;
        }
        assign[v] = want;
    }
    for c in clauses {
        for l in c {
            if l.unsigned_abs() > n_vars {
                panic!("harness: dpll clause literal beyond n_vars");
            }
        }
    }
    if rec(clauses, &mut assign) {
        Some((1..=n_vars).map(|v| assign[v] == 1).collect())
    } else {
        None
    }
}

fn val(assign: &[i8], l: isize) -> i8 {
    let a = assign[l.unsigned_abs()];
    if l > 0 {
        a
    } else {
        -a
    }
}

fn rec(clauses: &[Vec<isize>], assign: &mut Vec<i8>) -> bool {
    // unit propagation
    let mut trail: Vec<usize> = Vec::new();
    loop {
        let mut changed = false;
        for c in clauses {
            let mut unassigned = 0;
            let mut last = 0isize;
            let mut sat = false;
            for l in c {
                match val(assign, *l) {
                    1 => {
                        sat = true;
                        break;
                    }
                    0 => {
                        if unassigned == 0 || last != *l {
                            unassigned += 1;
                        }
                        last = *l;
                    }
                    _ => {}
                }
            }
            if sat {
                continue;
            }
            if unassigned == 0 {
                for v in trail {
                    assign[v] = 0;
                }
                return false;
            }
            if unassigned == 1 {
                let v = last.unsigned_abs();
                assign[v] = if last > 0 { 1 } else { -1 };
                trail.push(v);
                changed = true;
            }
        }
        if !changed {
            break;
        }
    }
    // pick a variable occurring in an unsatisfied clause
    let mut pick = 0usize;
    'outer: for c in clauses {
        if c.iter().any(|l| val(assign, *l) == 1) {
            continue;
        }
        for l in c {
            if val(assign, *l) == 0 {
                pick = l.unsigned_abs();
                break 'outer;
            }
        }
    }
    if pick == 0 {
        // all clauses satisfied: complete the assignment with false
        for a in assign.iter_mut().skip(1) {
            if *a == 0 {
                *a = -1;
            }
        }
        return true;
    }
    for choice in [1i8, -1i8] {
        let snapshot = assign.clone();
        assign[pick] = choice;
        if rec(clauses, assign) {
            return true;
        }
        *assign = snapshot;
    }
    for v in trail {
        assign[v] = 0;
    }
    false
}

/// Truth-table satisfiability for at most 20 variables (used to cross-check DPLL and CaDiCaL).
pub fn truth_table_sat(n_vars: usize, clauses: &[Vec<isize>], assumptions: &[isize]) -> bool {
    assert!(n_vars <= 20);
    'm: for m in 0u32..(1u32 << n_vars) {
        let lv = |l: isize| -> bool {
            let b = m & (1 << (l.unsigned_abs() - 1)) != 0;
            if l > 0 {
                b
            } else {
                !b
            }
        };
        for a in assumptions {
            if !lv(*a) {
                continue 'm;
            }
        }
        for c in clauses {
            if !c.iter().any(|l| lv(*l)) {
                continue 'm;
            }
        }
        return true;
    }
    false
}

/// Counts the models of a CNF projected on the first `proj` variables (truth table; for C10).
pub fn is_model(clauses: &[Vec<isize>], model: &[bool]) -> bool {
    clauses.iter().all(|c| {
        c.iter().any(|l| {
            let b = model[l.unsigned_abs() - 1];
            if *l > 0 {
                b
            } else {
                !b
            }
        })
    })
}

/// A third SAT backend for differential runs: the search is the DPLL above.
/// crustabri offers no public constructor for `Assignment`, so the object handed back is obtained
/// from a clause-free CaDiCaL instance on which the DPLL model is assumed literal by literal.
#[derive(Default)]
pub struct DpllSolver {
    clauses: Vec<Vec<isize>>,
    n_vars: usize,
    listeners: Vec<Box<dyn SolvingListener>>,
}

impl SatSolver for DpllSolver {
    fn add_clause(&mut self, cl: Vec<Literal>) {
        let c: Vec<isize> = cl.iter().map(|l| isize::from(*l)).collect();
        for l in c.iter() {
            self.n_vars = self.n_vars.max(l.unsigned_abs());
        }
        self.clauses.push(c);
    }

    fn solve(&mut self) -> SolvingResult {
        self.solve_under_assumptions(&[])
    }

    fn solve_under_assumptions(&mut self, assumptions: &[Literal]) -> SolvingResult {
        let ass: Vec<isize> = assumptions.iter().map(|l| isize::from(*l)).collect();
        for l in ass.iter() {
            self.n_vars = self.n_vars.max(l.unsigned_abs());
        }
        match dpll(self.n_vars, &self.clauses, &ass) {
            None => SolvingResult::Unsatisfiable,
            Some(model) => {
                let mut carrier = crustabri::sat::CadicalSolver::default();
                carrier.reserve(self.n_vars);
                let lits: Vec<Literal> = model
                    .iter()
                    .enumerate()
                    .map(|(i, b)| {
                        let v = (i + 1) as isize;
                        Literal::from(if *b { v } else { -v })
                    })
                    .collect();
                carrier.solve_under_assumptions(&lits)
            }
        }
    }

    fn n_vars(&self) -> usize {
        self.n_vars
    }

    fn add_listener(&mut self, listener: Box<dyn SolvingListener>) {
        self.listeners.push(listener)
    }

    fn reserve(&mut self, new_max_id: usize) {
        self.n_vars = self.n_vars.max(new_max_id)
    }
}

#[cfg(test)]
mod tests {
    use super::*;
    #[test]
    fn dpll_basic() {
        let cl = vec![vec![1, 2], vec![-1, 2], vec![-2, 3]];
        let m = dpll(3, &cl, &[]).unwrap();
        assert!(is_model(&cl, &m));
        assert!(dpll(3, &cl, &[-3]).is_none());
        assert!(!truth_table_sat(3, &cl, &[-3]));
        assert!(dpll(1, &[vec![]], &[]).is_none());
    }
}
