//! `MonitorSolver`: a `SatSolver` wrapper injected through the public `SatSolverFactoryFn`.
//! It records, validates, counts, caps and (optionally) corrupts every SAT call.

use crustabri::sat::{Assignment, Literal, SatSolver, SolvingListener, SolvingResult};
use std::cell::RefCell;
use std::rc::Rc;

pub const CAP_MARKER: &str = "CVERIF-CALL-CAP-EXCEEDED";

#[derive(Clone, Debug, PartialEq, Eq)]
pub enum Verdict {
    Sat,
    Unsat,
    Unknown,
}

#[derive(Clone, Debug)]
pub struct CallRecord {
    pub instance: usize,
    pub assumptions: Vec<isize>,
    pub verdict: Verdict,
    /// Model restricted to variables 1..=n_vars (only kept when `keep_models`).
    pub model: Option<Vec<Option<bool>>>,
    pub n_vars_before: usize,
    pub n_clauses_before: usize,
    pub injected: bool,
}

#[derive(Default, Debug)]
pub struct InstanceState {
    pub clauses: Vec<Vec<isize>>,
    pub max_reserved: usize,
    pub n_vars_seen: usize,
}

#[derive(Default, Debug)]
pub struct MonState {
    pub instances: Vec<InstanceState>,
    pub calls: Vec<CallRecord>,
    /// Total number of solve calls (also counted when records are not kept).
    pub n_calls: usize,
    pub keep_models: bool,
    pub keep_clauses: bool,
    /// Abort (panic with CAP_MARKER) when the number of calls exceeds this.
    pub cap: Option<usize>,
    /// Return `Unknown` at this call number (1-based), without consulting the backend.
    pub inject_unknown_at: Option<usize>,
    /// Every call from this number on answers `Unknown` (a backend that died stays dead).
    pub inject_unknown_from: Option<usize>,
    pub injected: bool,
    /// Contract violations observed (model falsifying a clause/assumption, n_vars shrinking, ...).
    pub contract_errors: Vec<String>,
    pub cap_hit: bool,
    /// Wall-clock cap (see `set_query_wall_cap`): time of the first call since the last reset, and whether
    /// the query was abandoned because it ran longer than the cap (inconclusive, never a violation).
    pub query_started: Option<std::time::Instant>,
    pub time_hit: bool,
}

impl MonState {
    pub fn reset_for_query(&mut self) {
        self.calls.clear();
        self.n_calls = 0;
        self.injected = false;
        self.cap_hit = false;
        self.query_started = None;
        self.time_hit = false;
    }
}

thread_local! {
    static QUERY_WALL_CAP: std::cell::Cell<Option<std::time::Duration>> = const { std::cell::Cell::new(None) };
}

/// Monitored solvers of this thread abandon a query (panic with CAP_MARKER, `time_hit` set) whose SAT calls
/// span more than `d` of wall-clock time.  Used by the checks that also draw frameworks of hundreds of
/// arguments, where a single legitimate enumeration may be intractable: such a query is inconclusive.
pub fn set_query_wall_cap(d: Option<std::time::Duration>) {
    QUERY_WALL_CAP.with(|c| c.set(d));
}

pub type MonHandle = Rc<RefCell<MonState>>;

pub fn new_handle() -> MonHandle {
    Rc::new(RefCell::new(MonState {
        keep_clauses: true,
        ..Default::default()
    }))
}

pub struct MonitorSolver {
    inner: Box<dyn SatSolver>,
    state: MonHandle,
    instance: usize,
    last_n_vars: usize,
}

impl MonitorSolver {
    pub fn new(inner: Box<dyn SatSolver>, state: MonHandle) -> Self {
        let instance = {
            let mut s = state.borrow_mut();
            s.instances.push(InstanceState::default());
            s.instances.len() - 1
        };
        MonitorSolver {
            inner,
            state,
            instance,
            last_n_vars: 0,
        }
    }

    fn check_n_vars(&mut self) {
        let nv = self.inner.n_vars();
        if nv < self.last_n_vars {
            self.state.borrow_mut().contract_errors.push(format!(
                "n_vars decreased from {} to {}",
                self.last_n_vars, nv
            ));
        }
        self.last_n_vars = nv;
    }
}

pub fn model_values(a: &Assignment, n_vars: usize) -> Result<Vec<Option<bool>>, String> {
    // value_of panics when the variable is beyond the assignment: catch it as a contract error
    let r = crate::report::catch(|| (1..=n_vars).map(|v| a.value_of(v)).collect::<Vec<_>>());
    match r {
        Ok(v) => Ok(v),
        Err(_) => Err(format!(
            "model cannot be queried for every variable up to n_vars()={} (it has {} entries)",
            n_vars,
            a.iter().count()
        )),
    }
}

pub fn lit_value(model: &[Option<bool>], lit: isize) -> Option<bool> {
    let v = lit.unsigned_abs();
    if v == 0 || v > model.len() {
        return None;
    }
    model[v - 1].map(|b| if lit > 0 { b } else { !b })
}

impl SatSolver for MonitorSolver {
    fn add_clause(&mut self, cl: Vec<Literal>) {
        {
            let mut s = self.state.borrow_mut();
            if s.keep_clauses {
                let c: Vec<isize> = cl.iter().map(|l| isize::from(*l)).collect();
                s.instances[self.instance].clauses.push(c);
            }
        }
        self.inner.add_clause(cl);
        self.check_n_vars();
    }

    fn solve(&mut self) -> SolvingResult {
        self.solve_under_assumptions(&[])
    }

    fn solve_under_assumptions(&mut self, assumptions: &[Literal]) -> SolvingResult {
        let call_no = {
            let mut s = self.state.borrow_mut();
            s.n_calls += 1;
            s.n_calls
        };
        let (cap, inject) = {
            let s = self.state.borrow();
            let from = s.inject_unknown_from.filter(|f| call_no >= *f).map(|_| call_no);
            (s.cap, s.inject_unknown_at.or(from))
        };
        if let Some(c) = cap {
            if call_no > c {
                self.state.borrow_mut().cap_hit = true;
                panic!("{}", CAP_MARKER);
            }
        }
        if let Some(limit) = QUERY_WALL_CAP.with(|c| c.get()) {
            let now = std::time::Instant::now();
            let over = {
                let mut s = self.state.borrow_mut();
                let start = *s.query_started.get_or_insert(now);
                now.duration_since(start) > limit
            };
            if over {
                self.state.borrow_mut().time_hit = true;
                panic!("{}", CAP_MARKER);
            }
        }
        let n_vars_before = self.inner.n_vars();
        let n_clauses_before = self.state.borrow().instances[self.instance].clauses.len();
        let ass: Vec<isize> = assumptions.iter().map(|l| isize::from(*l)).collect();
        if inject == Some(call_no) {
            let mut s = self.state.borrow_mut();
            s.injected = true;
            s.calls.push(CallRecord {
                instance: self.instance,
                assumptions: ass,
                verdict: Verdict::Unknown,
                model: None,
                n_vars_before,
                n_clauses_before,
                injected: true,
            });
            return SolvingResult::Unknown;
        }
        let r = self.inner.solve_under_assumptions(assumptions);
        self.check_n_vars();
        let n_vars_after = self.inner.n_vars();
        let (verdict, model) = match &r {
            SolvingResult::Satisfiable(a) => {
                let mut s = self.state.borrow_mut();
                match model_values(a, n_vars_after) {
                    Ok(m) => {
                        // every assumption must be true
                        for l in ass.iter() {
                            if lit_value(&m, *l) != Some(true) {
                                s.contract_errors.push(format!(
                                    "model does not satisfy assumption {} (call {})",
                                    l, call_no
                                ));
                                break;
                            }
                        }
                        if s.keep_clauses {
                            let inst = &s.instances[self.instance];
                            let mut bad = None;
                            for c in inst.clauses.iter() {
                                // a clause is falsified when every literal is assigned false
                                if c.iter().all(|l| lit_value(&m, *l) == Some(false)) {
                                    bad = Some(c.clone());
                                    break;
                                }
                            }
                            if let Some(c) = bad {
                                s.contract_errors.push(format!(
                                    "model falsifies clause {:?} (call {})",
                                    c, call_no
                                ));
                            }
                        }
                        (Verdict::Sat, Some(m))
                    }
                    Err(e) => {
                        s.contract_errors.push(e);
                        (Verdict::Sat, None)
                    }
                }
            }
            SolvingResult::Unsatisfiable => (Verdict::Unsat, None),
            SolvingResult::Unknown => (Verdict::Unknown, None),
        };
        {
            let mut s = self.state.borrow_mut();
            let keep = s.keep_models;
            s.calls.push(CallRecord {
                instance: self.instance,
                assumptions: ass,
                verdict,
                model: if keep { model } else { None },
                n_vars_before,
                n_clauses_before,
                injected: false,
            });
        }
        r
    }

    fn n_vars(&self) -> usize {
        self.inner.n_vars()
    }

    fn add_listener(&mut self, listener: Box<dyn SolvingListener>) {
        self.inner.add_listener(listener)
    }

    fn reserve(&mut self, new_max_id: usize) {
        {
            let mut s = self.state.borrow_mut();
            let i = &mut s.instances[self.instance];
            if new_max_id > i.max_reserved {
                i.max_reserved = new_max_id;
            }
        }
        self.inner.reserve(new_max_id);
        self.check_n_vars();
    }
}

/// Which real backend sits under the monitor.
#[derive(Clone, Debug, PartialEq, Eq)]
pub enum Backend {
    Cadical,
    /// External process: program path and options.
    External(String, Vec<String>),
    /// The harness's own DPLL (pure Rust search; the `Assignment` object is obtained from CaDiCaL
    /// by assuming the model found, because crustabri gives no public constructor for it).
    Dpll,
}

impl Backend {
    pub fn name(&self) -> String {
        match self {
            Backend::Cadical => "cadical".to_string(),
            Backend::External(p, o) => {
                let base = p.rsplit('/').next().unwrap_or(p);
                if o.is_empty() {
                    format!("ext:{}", base)
                } else {
                    format!("ext:{}:{}", base, o.join(","))
                }
            }
            Backend::Dpll => "dpll".to_string(),
        }
    }
    pub fn make(&self) -> Box<dyn SatSolver> {
        match self {
            Backend::Cadical => crustabri::sat::default_solver(),
            Backend::External(p, o) => Box::new(crustabri::sat::ExternalSatSolver::new(
                p.clone(),
                o.clone(),
            )),
            Backend::Dpll => Box::new(crate::dpll::DpllSolver::default()),
        }
    }
}

/// A factory producing monitored solvers over the given backend.
pub fn monitored_factory(
    backend: Backend,
    handle: MonHandle,
) -> Box<crustabri::sat::SatSolverFactoryFn> {
    Box::new(move || {
        let inner = backend.make();
        Box::new(MonitorSolver::new(inner, Rc::clone(&handle)))
    })
}

pub fn plain_factory(backend: Backend) -> Box<crustabri::sat::SatSolverFactoryFn> {
    Box::new(move || backend.make())
}
