//! cverif: runtime-monitoring harness for crustabri (see /verif/DESIGN.md).

pub mod cases;
pub mod dpll;
pub mod extcall;
pub mod gen;
pub mod monitor;
pub mod oracle;
pub mod present;
pub mod props;
pub mod refsat;
pub mod refsem;
pub mod report;
pub mod rng;
pub mod solvers;
