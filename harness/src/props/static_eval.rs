//! Checks C01, C02, C03, C04, C07: static solvers against the reference semantics.

use crate::cases::{gen_case, GenLimits, StaticCase};
use crate::gen::case_hash;
use crate::monitor::{self, Backend};
use crate::oracle::Oracle;
use crate::present::{build_string, build_usize, check_presents, Built, HLabel};
use crate::refsem::{Abs, Sem};
use crate::report::{Ctx, Tier};
use crate::rng::Rng;
use crate::solvers::{
    ask, ask_fresh, Enc, QKind, QOut, Query, SetOut, SolverType, StaticSolver,
};
use crustabri::aa::Argument;
use serde_json::{json, Value};

/// One way the library serves a problem.
#[derive(Clone, Debug)]
pub struct Target {
    pub ty: SolverType,
    pub kind: QKind,
    /// Semantics whose definition decides the answer.
    pub sem: Sem,
    /// Family a certificate must belong to.
    pub cert_sem: Sem,
}

impl Target {
    pub fn problem(&self) -> String {
        format!("{}-{}", self.kind.name(), self.sem.name())
    }
}

pub fn targets() -> Vec<Target> {
    let mut v = Vec::new();
    let mut add = |ty, kind, sem, cert_sem| {
        v.push(Target {
            ty,
            kind,
            sem,
            cert_sem,
        })
    };
    use QKind::*;
    use SolverType::*;
    add(Grounded, SE, Sem::GR, Sem::GR);
    add(Grounded, SE, Sem::CO, Sem::CO);
    add(Grounded, DC, Sem::GR, Sem::GR);
    add(Grounded, DS, Sem::GR, Sem::GR);
    add(Grounded, DS, Sem::CO, Sem::CO);
    add(Complete, DC, Sem::CO, Sem::CO);
    add(Complete, DC, Sem::PR, Sem::CO);
    add(Preferred, SE, Sem::PR, Sem::PR);
    add(Preferred, DS, Sem::PR, Sem::PR);
    for (ty, sem) in [
        (Stable, Sem::ST),
        (SemiStable, Sem::SST),
        (Stage, Sem::STG),
        (Ideal, Sem::ID),
    ] {
        add(ty, SE, sem, sem);
        add(ty, DC, sem, sem);
        add(ty, DS, sem, sem);
    }
    v
}

/// Arguments to query on a graph: all of them when small, else a sample that always includes
/// arguments of different components, self-attackers and unattacked ones.
pub fn sample_args(abs: &Abs, limit: usize, rng: &mut Rng) -> Vec<usize> {
    if abs.n <= limit {
        return (0..abs.n).collect();
    }
    let mut picked: Vec<usize> = Vec::new();
    let push = |a: usize, picked: &mut Vec<usize>| {
        if !picked.contains(&a) && picked.len() < limit {
            picked.push(a);
        }
    };
    let comps = abs.components();
    for c in comps.iter().take(4) {
        push(*rng.pick(c), &mut picked);
    }
    let mut attacked = vec![false; abs.n];
    let mut selfatt = vec![false; abs.n];
    for (a, b) in abs.att.iter() {
        attacked[*b] = true;
        if a == b {
            selfatt[*a] = true;
        }
    }
    if let Some(a) = (0..abs.n).find(|a| selfatt[*a]) {
        push(a, &mut picked);
    }
    if let Some(a) = (0..abs.n).find(|a| !attacked[*a]) {
        push(a, &mut picked);
    }
    let mut guard = 0;
    while picked.len() < limit && guard < 1000 {
        push(rng.below(abs.n), &mut picked);
        guard += 1;
    }
    picked
}

pub struct Prepared<T: HLabel> {
    pub built: Built<T>,
}

/// Which of the five properties a run decides.
#[derive(Clone, Copy, PartialEq, Eq, Debug)]
pub enum Prop {
    C01,
    C02,
    C03,
    C04,
    C07,
}

impl Prop {
    pub fn id(self) -> &'static str {
        match self {
            Prop::C01 => "C01",
            Prop::C02 => "C02",
            Prop::C03 => "C03",
            Prop::C04 => "C04",
            Prop::C07 => "C07",
        }
    }
}

fn set_json(s: &Option<SetOut>) -> Value {
    match s {
        None => Value::Null,
        Some(s) => json!(s.set),
    }
}

struct Env<'a> {
    ctx: &'a mut Ctx,
    case: &'a StaticCase,
    case_json: Value,
    oracle: &'a mut Oracle,
    prop: Prop,
    n_comps: usize,
    sparse: bool,
    contract_errors: u64,
    /// Replay: restrict to exactly this argument list.
    focus: Option<Vec<usize>>,
    /// Largest defender-set product of the framework as built (duplicates included).
    exp_cost: u64,
    /// Also put the problems to the `crustabri solve` binary on this case.
    through_cli: bool,
    /// A query of this case ran into the wall-clock cap: the remaining targets are skipped.
    abandoned: bool,
}

impl Env<'_> {
    fn viol(&mut self, sig: String, detail: Value) {
        let case_json = self.case_json.clone();
        self.ctx.violation(&sig, detail, &case_json);
    }
}

fn call_cap(abs: &Abs) -> usize {
    // generous cap on SAT calls per query: a verdict on logical steps against runaway loops
    200_000usize.min(5_000 + (1usize << abs.n.min(16)) * 4)
}

/// The exp complete encoder enumerates the cartesian product of the defender sets of every
/// argument (by design exponential); returns the largest product, saturating.
pub fn exp_cost(abs: &Abs) -> u64 {
    let mut n_attackers = vec![0u64; abs.n];
    for (_, b) in abs.att.iter() {
        n_attackers[*b] += 1;
    }
    let mut worst = 0u64;
    let mut prod = vec![1u64; abs.n];
    for (a, b) in abs.att.iter() {
        prod[*b] = prod[*b].saturating_mul(n_attackers[*a].max(1));
    }
    for p in prod {
        worst = worst.max(p);
    }
    worst
}

pub const EXP_COST_LIMIT: u64 = 20_000;

/// Same on the framework as built: the attack *multiset* counts (the ICCMA reader keeps repeated lines).
pub fn exp_cost_built<T: HLabel>(built: &Built<T>) -> u64 {
    let att: Vec<(usize, usize)> = built
        .af
        .iter_attacks()
        .filter_map(|a| {
            Some((
                *built.index_of.get(a.attacker().label())?,
                *built.index_of.get(a.attacked().label())?,
            ))
        })
        .collect();
    exp_cost(&Abs::new(built.labels.len(), att))
}

/// Encoders to exercise for a target on this graph (the exp complete encoder is left out when its
/// clause count would explode; counted in the evidence, not a verdict).
thread_local! {
    /// Set while a framework of more than 40 arguments is evaluated: solver objects built by the
    /// factory-less constructor carry no SAT-boundary monitor, hence neither the call cap nor the wall-clock
    /// cap, and one legitimately huge enumeration there would hold a shard for hours.
    static BIG_CASE: std::cell::Cell<bool> = const { std::cell::Cell::new(false) };
}

pub fn usable_encoders(ctx: &mut Ctx, cost: u64, t: &Target) -> Vec<Enc> {
    t.ty.configs(t.kind)
        .into_iter()
        .filter(|e| {
            if *e == Enc::New && BIG_CASE.with(|b| b.get()) {
                ctx.count("skipped/unmonitored-constructor-on-a-framework-above-40-arguments");
                false
            } else if *e == Enc::ExpCo && cost > EXP_COST_LIMIT {
                ctx.count("skipped/exp-encoder-clause-explosion");
                false
            } else {
                true
            }
        })
        .collect()
}

fn run_one<T: HLabel>(
    built: &Built<T>,
    t: &Target,
    enc: Enc,
    q: &Query,
    cap: usize,
) -> (Result<QOut, crate::report::PanicInfo>, monitor::MonHandle) {
    let h = monitor::new_handle();
    h.borrow_mut().cap = Some(cap);
    let fac = monitor::monitored_factory(Backend::Cadical, h.clone());
    let r = ask_fresh(built, t.ty, enc, fac, q);
    (r, h)
}

fn note_monitor(env: &mut Env, h: &monitor::MonHandle, t: &Target, enc: Enc, q: &Query) -> bool {
    let s = h.borrow();
    env.ctx.count_by("sat_calls", s.n_calls as u64);
    env.ctx.maximum("max_sat_calls_per_query", s.n_calls as u64);
    if !s.contract_errors.is_empty() {
        env.contract_errors += s.contract_errors.len() as u64;
        env.ctx
            .count_by("sat_contract_errors_seen", s.contract_errors.len() as u64);
    }
    let cap_hit = s.cap_hit;
    let time_hit = s.time_hit;
    drop(s);
    if time_hit {
        // not a verdict: the query ran into the wall-clock cap (an enumeration that is legitimately huge on
        // a framework of hundreds of arguments); the rest of this framework is left aside
        env.ctx.count("queries_abandoned_at_the_wall_clock_cap");
        env.abandoned = true;
        return true;
    }
    if cap_hit {
        let sig = format!(
            "{}/sat-call-cap-exceeded/{}/{}",
            env.prop.id(),
            t.problem(),
            enc.name()
        );
        env.viol(
            sig,
            json!({"query": q.to_json(), "what": "the query exceeded the SAT-call cap (runaway loop)"}),
        );
    }
    cap_hit
}

fn panic_viol(env: &mut Env, t: &Target, enc: Enc, q: &Query, p: &crate::report::PanicInfo) {
    let sig = format!(
        "{}/panic/{}/{}/{}",
        env.prop.id(),
        t.problem(),
        enc.name(),
        p.site()
    );
    env.viol(sig, json!({"query": q.to_json(), "panic": p.to_json()}));
}

fn members_viol(env: &mut Env, t: &Target, enc: Enc, q: &Query, s: &SetOut) {
    if !s.member_errors.is_empty() {
        let sig = format!(
            "{}/members/{}/{}",
            env.prop.id(),
            t.problem(),
            enc.name()
        );
        env.viol(
            sig,
            json!({"query": q.to_json(), "errors": s.member_errors, "set": s.set}),
        );
    }
}

// ---------------------------------------------------------------------------------------------
// C01
// ---------------------------------------------------------------------------------------------

fn check_c01<T: HLabel>(env: &mut Env, built: &Built<T>) {
    let abs = env.case.abs.clone();
    let cap = call_cap(&abs);
    for t in targets().iter().filter(|t| t.kind == QKind::SE) {
        if env.ctx.out_of_time() || env.abandoned {
            return; // the time budget also bounds the work spent inside one (large) case
        }
        let has = env.oracle.has_ext(t.sem);
        let n_ext = env.oracle.n_ext(t.sem);
        for enc in usable_encoders(env.ctx, env.exp_cost, t).iter() {
            let q = Query {
                kind: QKind::SE,
                args: vec![],
                cert: false,
            };
            // the same object is asked twice
            let h = monitor::new_handle();
            h.borrow_mut().cap = Some(cap);
            let fac = monitor::monitored_factory(Backend::Cadical, h.clone());
            let mut solver = StaticSolver::new(&built.af, t.ty, *enc, fac);
            // on every other framework the object first answers an acceptance query (not judged here):
            // whatever it keeps from that must not shorten the extension it returns next
            if abs.n > 0 && (abs.n + abs.att.len()) % 2 == 0 {
                let a = (abs.att.len() * 7 + 1) % abs.n;
                for kind in [QKind::DC, QKind::DS] {
                    if t.ty.supports(kind) {
                        let pre = Query { kind, args: vec![a], cert: false };
                        let _ = ask(built, &mut solver, &pre);
                    }
                }
                h.borrow_mut().reset_for_query();
                h.borrow_mut().cap = Some(cap);
                env.ctx.count("queries/extension-asked-after-an-acceptance-query-on-the-same-object");
            }
            let mut first_class: Option<bool> = None;
            for round in 0..2 {
                env.ctx.eval();
                env.ctx.count(&format!("queries/{}", t.problem()));
                env.ctx.count(&format!("configurations/{}", enc.name()));
                let r = ask(built, &mut solver, &q);
                if note_monitor(env, &h, t, *enc, &q) {
                    break;
                }
                match r {
                    Err(p) => {
                        panic_viol(env, t, *enc, &q, &p);
                        break;
                    }
                    Ok(QOut::Ext(opt)) => {
                        let class = opt.is_some();
                        if let Some(fc) = first_class {
                            if fc != class {
                                let sig = format!(
                                    "C01/second-call-differs/{}/{}",
                                    t.problem(),
                                    enc.name()
                                );
                                env.viol(sig, json!({"first_some": fc, "second_some": class}));
                            }
                        }
                        first_class = Some(class);
                        match (&opt, has) {
                            (None, Some(true)) => {
                                let sig = format!(
                                    "C01/no-extension-reported-but-one-exists/{}/{}",
                                    t.problem(),
                                    enc.name()
                                );
                                env.viol(sig, json!({"round": round}));
                            }
                            (Some(s), Some(false)) => {
                                let sig = format!(
                                    "C01/extension-returned-but-none-exists/{}/{}",
                                    t.problem(),
                                    enc.name()
                                );
                                env.viol(sig, json!({"returned": s.set}));
                            }
                            (Some(s), _) => {
                                members_viol(env, t, *enc, &q, s);
                                match env.oracle.is_ext(t.sem, &s.set) {
                                    Some(true) => {}
                                    Some(false) => {
                                        let sig = format!(
                                            "C01/not-an-extension/{}/{}",
                                            t.problem(),
                                            enc.name()
                                        );
                                        env.viol(
                                            sig,
                                            json!({"returned": s.set, "semantics": t.sem.name(), "round": round}),
                                        );
                                    }
                                    None => env.ctx.inconclusive("oracle-bound"),
                                }
                            }
                            (None, Some(false)) => {
                                env.ctx.count("no_extension_correctly_reported");
                            }
                            (None, None) => env.ctx.inconclusive("oracle-bound"),
                        }
                        if round == 0 {
                            let nontrivial = n_ext.map(|k| k >= 2).unwrap_or(false)
                                || env.n_comps >= 2
                                || env.sparse
                                || has == Some(false);
                            if nontrivial {
                                let hsh = case_hash(
                                    &abs,
                                    &[env.case.pres.kind(), &t.problem(), enc.name()],
                                );
                                env.ctx.nontrivial(hsh);
                            }
                            let key = format!("se/{}", t.problem());
                            let cj = env.case.short();
                            env.ctx.sample(&key, || {
                                json!({"case": cj, "problem": t.problem(), "encoder": enc.name(),
                                       "returned": set_json(&opt)})
                            });
                        }
                    }
                    Ok(_) => unreachable!(),
                }
            }
        }
    }
    // AAFramework::grounded_extension directly
    env.ctx.eval();
    let r = crate::report::catch(|| {
        let v: Vec<&Argument<T>> = built.af.grounded_extension();
        crate::solvers::map_set(built, &v)
    });
    let t = Target {
        ty: SolverType::Grounded,
        kind: QKind::SE,
        sem: Sem::GR,
        cert_sem: Sem::GR,
    };
    let q = Query {
        kind: QKind::SE,
        args: vec![],
        cert: false,
    };
    match r {
        Err(p) => panic_viol(env, &t, Enc::None, &q, &p),
        Ok(s) => {
            members_viol(env, &t, Enc::None, &q, &s);
            if env.oracle.is_ext(Sem::GR, &s.set) == Some(false) {
                env.viol(
                    "C01/not-an-extension/grounded_extension()/none".to_string(),
                    json!({"returned": s.set}),
                );
            }
        }
    }
}

// ---------------------------------------------------------------------------------------------
// C02 / C03 / C04: single-argument acceptance
// ---------------------------------------------------------------------------------------------

fn expected_status(oracle: &mut Oracle, t: &Target, args: &[usize]) -> Option<bool> {
    match t.kind {
        QKind::DC => oracle.cred(t.sem, args),
        QKind::DS => oracle.skep(t.sem, args),
        QKind::SE => None,
    }
}

/// Judges a certificate against the status that came with it.
fn judge_certificate(
    env: &mut Env,
    t: &Target,
    enc: Enc,
    q: &Query,
    status: bool,
    cert: &Option<SetOut>,
) {
    let promised = match t.kind {
        QKind::DC => status,
        QKind::DS => !status,
        QKind::SE => false,
    };
    let pid = env.prop.id();
    match (promised, cert) {
        (true, None) => {
            let sig = format!(
                "{}/certificate-missing/{}/{}",
                pid,
                t.problem(),
                enc.name()
            );
            env.viol(sig, json!({"query": q.to_json(), "status": status}));
        }
        (false, Some(s)) => {
            let sig = format!(
                "{}/certificate-unexpected/{}/{}",
                pid,
                t.problem(),
                enc.name()
            );
            env.viol(
                sig,
                json!({"query": q.to_json(), "status": status, "certificate": s.set}),
            );
        }
        (false, None) => {}
        (true, Some(s)) => {
            env.ctx.count("certificates_checked");
            members_viol(env, t, enc, q, s);
            let hits = q.args.iter().any(|a| s.set.contains(a));
            let want_hit = t.kind == QKind::DC;
            if hits != want_hit {
                let sig = format!(
                    "{}/certificate-wrong-about-argument/{}/{}",
                    pid,
                    t.problem(),
                    enc.name()
                );
                env.viol(
                    sig,
                    json!({"query": q.to_json(), "status": status, "certificate": s.set}),
                );
            }
            match env.oracle.is_ext(t.cert_sem, &s.set) {
                Some(true) => {}
                Some(false) => {
                    let sig = format!(
                        "{}/certificate-not-an-extension/{}/{}",
                        pid,
                        t.problem(),
                        enc.name()
                    );
                    env.viol(
                        sig,
                        json!({"query": q.to_json(), "status": status, "certificate": s.set,
                               "required_family": t.cert_sem.name()}),
                    );
                }
                None => env.ctx.inconclusive("oracle-bound"),
            }
        }
    }
}

fn check_acceptance<T: HLabel>(env: &mut Env, built: &Built<T>, rng: &mut Rng) {
    let abs = env.case.abs.clone();
    let cap = call_cap(&abs);
    let kind = match env.prop {
        Prop::C02 => Some(QKind::DC),
        Prop::C03 => Some(QKind::DS),
        _ => None,
    };
    let with_cert = env.prop == Prop::C04;
    let args = match &env.focus {
        Some(f) => f.clone(),
        None => sample_args(&abs, 12, rng),
    };
    let big = abs.n > 14 && env.focus.is_none();
    for t in targets().iter().filter(|t| {
        t.kind != QKind::SE && kind.map(|k| k == t.kind).unwrap_or(true)
    }) {
        if env.ctx.out_of_time() || env.abandoned {
            return;
        }
        let encs = usable_encoders(env.ctx, env.exp_cost, t);
        let has = env.oracle.has_ext(t.sem);
        for (ei, enc) in encs.iter().enumerate() {
            // on every other framework one solver object answers the queries about all arguments in
            // turn (what a library user does); on the others each query gets a fresh object
            let reuse = env.focus.is_none() && (abs.n + abs.att.len()) % 2 == 0;
            let mut shared: Option<(StaticSolver<T>, monitor::MonHandle)> = None;
            if reuse {
                let h = monitor::new_handle();
                let fac = monitor::monitored_factory(Backend::Cadical, h.clone());
                if let Ok(s) = crate::report::catch(|| StaticSolver::new(&built.af, t.ty, *enc, fac)) {
                    shared = Some((s, h));
                }
            }
            for (ai, a) in args.iter().enumerate() {
                // on big inputs spread encoders over arguments instead of the full product
                if big && encs.len() > 1 && (ai + ei) % encs.len() != 0 {
                    continue;
                }
                let q = Query {
                    kind: t.kind,
                    args: vec![*a],
                    cert: with_cert,
                };
                env.ctx.eval();
                env.ctx.count(&format!("queries/{}", t.problem()));
                env.ctx.count(&format!("configurations/{}", enc.name()));
                let (r, h) = match shared.as_mut() {
                    Some((s, h)) => {
                        {
                            let mut st = h.borrow_mut();
                            st.reset_for_query();
                            st.cap = Some(cap);
                        }
                        env.ctx.count("queries/on-a-reused-solver-object");
                        if with_cert && (ai + ei) % 2 == 0 {
                            // the certificate-less variant of the same query first (not judged here): whatever
                            // the object keeps from it must not leak into the certificate asked for next
                            let plain = Query { kind: q.kind, args: q.args.clone(), cert: false };
                            let _ = ask(built, s, &plain);
                            let mut st = h.borrow_mut();
                            st.reset_for_query();
                            st.cap = Some(cap);
                        }
                        (ask(built, s, &q), h.clone())
                    }
                    None => run_one(built, t, *enc, &q, cap),
                };
                if r.is_err() {
                    // the object may be poisoned by the unwinding: the remaining queries get fresh ones
                    shared = None;
                }
                if note_monitor(env, &h, t, *enc, &q) {
                    continue;
                }
                match r {
                    Err(p) => panic_viol(env, t, *enc, &q, &p),
                    Ok(QOut::Status(st, cert)) => {
                        let exp = expected_status(env.oracle, t, &[*a]);
                        match exp {
                            None => env.ctx.inconclusive("oracle-bound"),
                            Some(e) => {
                                if e != st {
                                    let sig = format!(
                                        "{}/status/{}/{}/{}",
                                        env.prop.id(),
                                        t.problem(),
                                        enc.name(),
                                        if st { "got-yes" } else { "got-no" }
                                    );
                                    env.viol(
                                        sig,
                                        json!({"query": q.to_json(), "expected": e, "observed": st}),
                                    );
                                }
                                // non-triviality
                                let nontrivial = match env.prop {
                                    Prop::C04 => {
                                        // a certificate was due and >= 2 components
                                        let due = (t.kind == QKind::DC && e)
                                            || (t.kind == QKind::DS && !e);
                                        due && (env.n_comps >= 2 || env.sparse)
                                    }
                                    _ => {
                                        let c = env.oracle.cred(t.sem, &[*a]);
                                        let s = env.oracle.skep(t.sem, &[*a]);
                                        (c == Some(true) && s == Some(false))
                                            || has == Some(false)
                                    }
                                };
                                if nontrivial {
                                    let astr = a.to_string();
                                    let hsh = case_hash(
                                        &abs,
                                        &[env.case.pres.kind(), &t.problem(), enc.name(), &astr],
                                    );
                                    env.ctx.nontrivial(hsh);
                                }
                            }
                        }
                        if with_cert {
                            judge_certificate(env, t, *enc, &q, st, &cert);
                        } else if cert.is_some() {
                            unreachable!();
                        }
                        let key = format!("{}/{}", t.problem(), if st { "yes" } else { "no" });
                        let cj = env.case.short();
                        env.ctx.sample(&key, || {
                            json!({"case": cj, "problem": t.problem(), "encoder": enc.name(),
                                   "argument": a, "status": st, "certificate": set_json(&cert)})
                        });
                    }
                    Ok(_) => unreachable!(),
                }
            }
        }
    }
}

// ---------------------------------------------------------------------------------------------
// C07: multi-argument queries
// ---------------------------------------------------------------------------------------------

fn list_class(abs: &Abs, comp_of: &[usize], l: &[usize]) -> &'static str {
    let mut d = l.to_vec();
    d.sort();
    d.dedup();
    if d.len() < l.len() {
        return "duplicates";
    }
    if l.len() == 1 {
        return "single";
    }
    if l.iter().any(|a| abs.att.contains(&(*a, *a))) {
        return "contains-self-attacker";
    }
    let first = comp_of[l[0]];
    if l.iter().any(|a| comp_of[*a] != first) {
        return "args-in-different-components";
    }
    for a in l {
        for b in l {
            if a != b && abs.att.contains(&(*a, *b)) {
                return "mutually-attacking";
            }
        }
    }
    "same-component"
}

fn check_c07<T: HLabel>(env: &mut Env, built: &Built<T>, rng: &mut Rng) {
    let abs = env.case.abs.clone();
    if abs.n == 0 {
        return;
    }
    let cap = call_cap(&abs);
    let comps = abs.components();
    let mut comp_of = vec![0usize; abs.n];
    for (ci, c) in comps.iter().enumerate() {
        for a in c {
            comp_of[*a] = ci;
        }
    }
    // all lists of 1-3 arguments when the graph is tiny, else a sample
    let mut lists: Vec<Vec<usize>> = Vec::new();
    let n = abs.n;
    if let Some(f) = &env.focus {
        lists.push(f.clone());
    } else if n <= 4 {
        for a in 0..n {
            lists.push(vec![a]);
            for b in 0..n {
                lists.push(vec![a, b]);
                for c in 0..n {
                    lists.push(vec![a, b, c]);
                }
            }
        }
    } else {
        let budget = env.ctx.tier.pick(14, 40);
        for _ in 0..budget {
            let len = 1 + rng.weighted(&[1, 4, 3]);
            let mut l: Vec<usize> = (0..len).map(|_| rng.below(n)).collect();
            if rng.pct(15) && len >= 2 {
                l[1] = l[0];
            }
            // bias towards different components
            if comps.len() >= 2 && rng.pct(50) && len >= 2 {
                let c0 = rng.below(comps.len());
                let mut c1 = rng.below(comps.len());
                if c1 == c0 {
                    c1 = (c0 + 1) % comps.len();
                }
                l[0] = *rng.pick(&comps[c0]);
                l[1] = *rng.pick(&comps[c1]);
            }
            // two listed arguments whose positions differ by a word size (8, 16, 32, 64, 128): with the plain
            // presentation their ids are congruent modulo that size
            if len >= 2 && n > 8 && rng.pct(if n > 64 { 60 } else { 35 }) {
                let steps: Vec<usize> = [8usize, 16, 32, 64, 128].iter().copied().filter(|s| *s < n && (n <= 64 || *s >= 64)).collect();
                let step = steps[rng.below(steps.len())];
                let a = rng.below(n - step);
                let at = rng.below(len - 1);
                l[at] = a;
                l[at + 1] = a + step;
                if step >= 64 {
                    env.ctx.count("lists/two-arguments-64-or-128-positions-apart");
                }
            }
            lists.push(l);
        }
    }
    for t in targets().iter().filter(|t| t.kind != QKind::SE) {
        if env.ctx.out_of_time() || env.abandoned {
            return;
        }
        // library-level property: each solver type under its own semantics only
        if t.sem != t.ty.sem() {
            continue;
        }
        let encs = usable_encoders(env.ctx, env.exp_cost, t);
        // on every other framework all lists are put, in turn, to one solver object (one encoder)
        let reuse = env.focus.is_none() && (abs.n + abs.att.len()) % 2 == 1;
        let shared_enc = encs[rng.below(encs.len())];
        let mut shared: Option<(StaticSolver<T>, monitor::MonHandle)> = None;
        if reuse {
            let h = monitor::new_handle();
            let fac = monitor::monitored_factory(Backend::Cadical, h.clone());
            if let Ok(s) = crate::report::catch(|| StaticSolver::new(&built.af, t.ty, shared_enc, fac)) {
                shared = Some((s, h));
            }
        }
        for l in lists.iter() {
            let enc = if shared.is_some() { shared_enc } else { encs[rng.below(encs.len())] };
            let class = list_class(&abs, &comp_of, l);
            let exp = expected_status(env.oracle, t, l);
            let mut statuses: [Option<bool>; 2] = [None, None];
            for (ci, cert) in [false, true].into_iter().enumerate() {
                let q = Query {
                    kind: t.kind,
                    args: l.clone(),
                    cert,
                };
                env.ctx.eval();
                env.ctx.count(&format!("lists/{}", class));
                env.ctx.count(&format!("configurations/{}", enc.name()));
                let (r, h) = match shared.as_mut() {
                    Some((s, h)) => {
                        {
                            let mut st = h.borrow_mut();
                            st.reset_for_query();
                            st.cap = Some(cap);
                        }
                        env.ctx.count("queries/on-a-reused-solver-object");
                        (ask(built, s, &q), h.clone())
                    }
                    None => run_one(built, t, enc, &q, cap),
                };
                if r.is_err() {
                    shared = None;
                }
                if note_monitor(env, &h, t, enc, &q) {
                    continue;
                }
                match r {
                    Err(p) => panic_viol(env, t, enc, &q, &p),
                    Ok(QOut::Status(st, c)) => {
                        statuses[ci] = Some(st);
                        if let Some(e) = exp {
                            if e != st {
                                let sig = format!(
                                    "C07/status/{}/{}/{}/{}",
                                    t.problem(),
                                    if cert { "with-certificate" } else { "without-certificate" },
                                    class,
                                    if st { "got-yes" } else { "got-no" }
                                );
                                env.viol(
                                    sig,
                                    json!({"query": q.to_json(), "encoder": enc.name(), "expected": e, "observed": st}),
                                );
                            }
                        } else {
                            env.ctx.inconclusive("oracle-bound");
                        }
                        if cert {
                            let before = env.ctx.n_violations();
                            judge_certificate(env, t, enc, &q, st, &c);
                            let _ = before;
                        }
                        let key = format!("{}/{}", t.problem(), class);
                        let cj = env.case.short();
                        env.ctx.sample(&key, || {
                            json!({"case": cj, "problem": t.problem(), "encoder": enc.name(),
                                   "arguments": l, "class": class, "with_certificate": cert,
                                   "status": st, "certificate": set_json(&c)})
                        });
                    }
                    Ok(_) => unreachable!(),
                }
            }
            if let (Some(a), Some(b)) = (statuses[0], statuses[1]) {
                if a != b {
                    let sig = format!("C07/variants-disagree/{}/{}", t.problem(), class);
                    env.viol(
                        sig,
                        json!({"arguments": l, "encoder": enc.name(), "without_certificate": a, "with_certificate": b}),
                    );
                }
            }
            if class != "single" {
                let mut extra: Vec<String> = vec![t.problem(), enc.name().to_string()];
                extra.push(format!("{:?}", l));
                let refs: Vec<&str> = extra.iter().map(|s| s.as_str()).collect();
                env.ctx.nontrivial(case_hash(&abs, &refs));
            }
        }
    }
}

// ---------------------------------------------------------------------------------------------
// the same problems through `crustabri solve` (dispatch and encoder selection of the binary)
// ---------------------------------------------------------------------------------------------

fn cli_dispatch(env: &mut Env, rng: &mut Rng) {
    use crate::props::cli::{parse_witness, run as run_bin};
    let abs = env.case.abs.clone();
    if abs.n == 0 || abs.n > 7 {
        return;
    }
    let dir = env.ctx.out_dir.join(format!("dispatch-{}-{}", env.prop.id(), env.ctx.shard));
    let _ = std::fs::create_dir_all(&dir);
    let file = dir.join("instance.af");
    let mut text = format!("p af {}\n", abs.n);
    for (a, b) in abs.att.iter() {
        text.push_str(&format!("{} {}\n", a + 1, b + 1));
    }
    if std::fs::write(&file, &text).is_err() {
        env.ctx.harness_error("cannot write instance file");
        return;
    }
    let bin = env.ctx.repo_bin_dir.join("crustabri");
    let cost = exp_cost(&abs);
    let kinds: Vec<QKind> = match env.prop {
        Prop::C01 => vec![QKind::SE],
        Prop::C02 => vec![QKind::DC],
        Prop::C03 => vec![QKind::DS],
        Prop::C04 => vec![QKind::DC, QKind::DS],
        Prop::C07 => vec![],
    };
    let with_cert = env.prop == Prop::C04;
    for kind in kinds {
        for sem in crate::refsem::ALL_SEMS {
            let problem = format!("{}-{}", kind.name(), sem.name());
            let a0 = rng.below(abs.n);
            let queried: Vec<usize> = if env.prop == Prop::C04 && env.focus.is_none() { (0..abs.n).collect() } else { vec![a0] };
            for (a, enc) in queried.iter().flat_map(|a| [None, Some("aux_var"), Some("exp"), Some("hybrid")].into_iter().map(move |e| (*a, e))) {
                if enc == Some("exp") && cost > 2000 {
                    continue;
                }
                let mut args: Vec<String> = vec!["solve".into(), "-f".into(), file.to_string_lossy().to_string(), "-p".into(), problem.clone(), "--logging-level".into(), "off".into()];
                if kind != QKind::SE {
                    args.push("-a".into());
                    args.push((a + 1).to_string());
                }
                if let Some(e) = enc {
                    args.push("--encoding".into());
                    args.push(e.into());
                }
                if with_cert {
                    args.push("-c".into());
                }
                let out = match run_bin(&bin, &args) {
                    Some(o) => o,
                    None => {
                        env.ctx.inconclusive("cli-run-failed-or-timed-out");
                        continue;
                    }
                };
                env.ctx.eval();
                env.ctx.count("cli_dispatch_runs");
                let enc_name = enc.unwrap_or("default");
                let detail = |what: &str| -> Value {
                    json!({"what": what, "invocation": args, "exit_status": out.code, "stdout": out.stdout, "instance": text})
                };
                if out.code != Some(0) {
                    env.viol(format!("{}/cli/exit-status/{}/{}", env.prop.id(), problem, enc_name), detail("non-zero exit status"));
                    continue;
                }
                let lines: Vec<&str> = out.stdout.lines().collect();
                let set_of_line = |l: &str| -> Option<Vec<usize>> {
                    parse_witness(false, l)?.iter().map(|x| x.parse::<usize>().ok().filter(|k| *k >= 1 && *k <= abs.n).map(|k| k - 1)).collect()
                };
                if kind == QKind::SE {
                    let has = env.oracle.has_ext(sem);
                    match (lines.first().copied(), has) {
                        (Some("NO"), Some(false)) => {}
                        (Some(l), Some(true)) => match set_of_line(l) {
                            Some(mut set) => {
                                set.sort();
                                if env.oracle.is_ext(sem, &set) == Some(false) {
                                    env.viol(format!("C01/cli/not-an-extension/{}/{}", problem, enc_name), detail("the printed set is not an extension"));
                                }
                            }
                            None => env.viol(format!("C01/cli/not-an-extension/{}/{}", problem, enc_name), detail("unparsable witness line")),
                        },
                        (got, exp) => env.viol(format!("C01/cli/answer-class/{}/{}", problem, enc_name), json!({"got": got, "extension_exists": exp, "invocation": args, "instance": text})),
                    }
                    continue;
                }
                let exp = if kind == QKind::DC { env.oracle.cred(sem, &[a]) } else { env.oracle.skep(sem, &[a]) };
                let st = match lines.first().copied() {
                    Some("YES") => true,
                    Some("NO") => false,
                    _ => {
                        env.viol(format!("{}/cli/status-line/{}/{}", env.prop.id(), problem, enc_name), detail("first line is not YES/NO"));
                        continue;
                    }
                };
                if let Some(e) = exp {
                    if e != st {
                        env.viol(
                            format!("{}/cli/status/{}/{}/{}", env.prop.id(), problem, enc_name, if st { "got-yes" } else { "got-no" }),
                            detail("status differs from the oracle"),
                        );
                        continue;
                    }
                }
                if with_cert {
                    let due = (kind == QKind::DC && st) || (kind == QKind::DS && !st);
                    match (due, lines.get(1)) {
                        (true, Some(l)) => match set_of_line(l) {
                            Some(mut set) => {
                                set.sort();
                                let cert_sem = if kind == QKind::DC && sem == Sem::PR { Sem::CO } else { sem };
                                let has = set.contains(&a);
                                if has != (kind == QKind::DC) || env.oracle.is_ext(cert_sem, &set) == Some(false) {
                                    env.viol(format!("C04/cli/certificate-invalid/{}/{}", problem, enc_name), detail("printed certificate is not a valid witness"));
                                }
                            }
                            None => env.viol(format!("C04/cli/certificate-invalid/{}/{}", problem, enc_name), detail("unparsable witness line")),
                        },
                        (true, None) => env.viol(format!("C04/cli/certificate-missing/{}/{}", problem, enc_name), detail("no witness line")),
                        (false, Some(_)) => env.viol(format!("C04/cli/certificate-unexpected/{}/{}", problem, enc_name), detail("unexpected witness line")),
                        (false, None) => {}
                    }
                }
            }
        }
    }
}

// ---------------------------------------------------------------------------------------------
// driver
// ---------------------------------------------------------------------------------------------

fn eval_built<T: HLabel>(env: &mut Env, built: &Built<T>, rng: &mut Rng) {
    if let Err(e) = check_presents(built, &env.case.abs) {
        // the presentation machinery (store / readers) did not produce the intended framework:
        // that is the business of C12/C13; here the case is unusable
        env.ctx.inconclusive("presentation-mismatch");
        if e.starts_with(crate::present::PANIC_MARK) {
            return;
        }
        env.ctx.harness_error(&format!(
            "presentation does not present the intended graph: {} ({})",
            e,
            env.case.pres.kind()
        ));
        return;
    }
    env.exp_cost = exp_cost_built(built);
    match env.prop {
        Prop::C01 => check_c01(env, built),
        Prop::C02 | Prop::C03 | Prop::C04 => check_acceptance(env, built, rng),
        Prop::C07 => check_c07(env, built, rng),
    }
}

pub fn eval_case(
    ctx: &mut Ctx,
    prop: Prop,
    case: &StaticCase,
    rng: &mut Rng,
    focus: Option<Vec<usize>>,
    through_cli: bool,
) {
    let mut oracle = match Oracle::for_graph(&case.abs) {
        Ok(o) => o,
        Err(e) => {
            ctx.harness_error(&e.0);
            return;
        }
    };
    BIG_CASE.with(|b| b.set(case.abs.n > 40));
    ctx.count(&format!("cases/{}", case.family));
    ctx.count(&format!("presentations/{}", case.pres.kind()));
    ctx.count(&format!("oracle/{}", oracle.kind()));
    let n_comps = case.abs.components().len();
    let case_json = case.to_json();
    let sparse = case.is_sparse();
    let mut env = Env {
        ctx,
        case,
        case_json,
        oracle: &mut oracle,
        prop,
        n_comps,
        sparse,
        contract_errors: 0,
        focus,
        exp_cost: 0,
        through_cli,
        abandoned: false,
    };
    if env.through_cli {
        let mut r2 = Rng::from_path(&[0xc11, env.case.abs.n as u64, env.case.abs.att.len() as u64]);
        cli_dispatch(&mut env, &mut r2);
    }
    if case.pres.is_usize() {
        match build_usize(&case.pres) {
            Ok(b) => eval_built(&mut env, &b, rng),
            Err(e) => {
                if e.starts_with(crate::present::PANIC_MARK) {
                    // the store / reader panicked: C12 / C13 report that; this case cannot be judged here
                    env.ctx.inconclusive("presentation-panicked");
                } else {
                    env.ctx.inconclusive("presentation-failed");
                    env.ctx.harness_error(&e);
                }
            }
        }
    } else {
        match build_string(&case.pres) {
            Ok(b) => eval_built(&mut env, &b, rng),
            Err(e) => {
                if e.starts_with(crate::present::PANIC_MARK) {
                    // the store / reader panicked: C12 / C13 report that; this case cannot be judged here
                    env.ctx.inconclusive("presentation-panicked");
                } else {
                    env.ctx.inconclusive("presentation-failed");
                    env.ctx.harness_error(&e);
                }
            }
        }
    }
}

/// (family, number of cases) per property and tier.
pub fn schedule(prop: Prop, tier: Tier) -> Vec<(&'static str, u64)> {
    let q = tier == Tier::Quick;
    match prop {
        Prop::C01 => vec![
            ("empty", 4),
            ("all2", 16),
            ("all3", 512),
            ("all4", if q { 0 } else { 65_536 }),
            ("er", if q { 6_000 } else { 80_000 }),
            ("union", if q { 4_000 } else { 50_000 }),
            ("layered", if q { 1_500 } else { 20_000 }),
            ("lattice", if q { 2_000 } else { 25_000 }),
            ("dense", if q { 1_200 } else { 15_000 }),
            ("dup", if q { 1_200 } else { 15_000 }),
            ("big-union", if q { 200 } else { 3_000 }),
            ("big-conn", if q { 200 } else { 3_000 }),
            ("big-two", if q { 80 } else { 1_500 }),
            ("closed-form", if q { 100 } else { 1_200 }),
        ],
        Prop::C02 | Prop::C03 => vec![
            ("empty", 0),
            ("all2", 16),
            ("all3", 512),
            ("all4", if q { 0 } else { 65_536 }),
            ("er", if q { 3_000 } else { 60_000 }),
            ("union", if q { 2_000 } else { 40_000 }),
            ("layered", if q { 800 } else { 15_000 }),
            ("lattice", if q { 1_200 } else { 20_000 }),
            ("dense", if q { 600 } else { 10_000 }),
            ("dup", if q { 600 } else { 10_000 }),
            ("big-union", if q { 150 } else { 2_500 }),
            ("big-conn", if q { 150 } else { 2_500 }),
            ("big-two", if q { 60 } else { 1_200 }),
            ("closed-form", if q { 60 } else { 1_000 }),
        ],
        Prop::C04 => vec![
            ("all2", 16),
            ("all3", 512),
            ("all4", if q { 0 } else { 20_000 }),
            ("er", if q { 3_000 } else { 50_000 }),
            ("union", if q { 3_000 } else { 60_000 }),
            ("layered", if q { 1_500 } else { 30_000 }),
            ("lattice", if q { 1_500 } else { 20_000 }),
            ("dense", if q { 400 } else { 8_000 }),
            ("dup", if q { 400 } else { 8_000 }),
            ("big-union", if q { 150 } else { 3_000 }),
            ("big-conn", if q { 100 } else { 2_000 }),
            ("big-two", if q { 50 } else { 1_000 }),
        ],
        Prop::C07 => vec![
            ("all2", 16),
            ("all3", 512),
            ("er-small", if q { 1_600 } else { 30_000 }),
            ("union", if q { 2_000 } else { 40_000 }),
            ("layered", if q { 500 } else { 10_000 }),
            ("lattice", if q { 600 } else { 12_000 }),
            ("dup", if q { 240 } else { 5_000 }),
            ("big-union", if q { 160 } else { 3_000 }),
            ("stable-rich-over-64", if q { 160 } else { 3_000 }),
        ],
    }
}

pub fn run(ctx: &mut Ctx, prop: Prop) {
    // one query may take 40 s of SAT calls at most (far above anything but an enumeration that is legitimately
    // huge on a framework of hundreds of arguments); beyond, it is abandoned as inconclusive
    monitor::set_query_wall_cap(Some(std::time::Duration::from_secs(40)));
    let lim = GenLimits {
        er_max: 9,
        big_min: 20,
        big_max: ctx.tier.pick(80, 300),
    };
    let mut global_i: u64 = 0;
    for (family, count) in schedule(prop, ctx.tier) {
        for i in 0..count {
            global_i += 1;
            if !ctx.mine(global_i) {
                continue;
            }
            if ctx.out_of_time() {
                return;
            }
            let case = gen_case(family, i, ctx.seed, &lim);
            let desc = json!({"family": family, "i": i});
            ctx.case_begin(&desc);
            let mut rng = Rng::from_path(&[ctx.seed, crate::cases::fam_hash(family), i, 0xabc]);
            let t0 = std::time::Instant::now();
            // (C04: the binaries choose an encoder per problem and per --encoding value, and a wrong choice may
            // only show in the certificate of a fraction of a percent of the queries: many more frameworks,
            // every argument)
            // (a process costs about 50 ms here: 20 frameworks per family are 12 000 runs at the quick tier)
            let cli_cases = if prop == Prop::C04 { ctx.tier.pick(20, 300) } else { ctx.tier.pick(12, 150) };
            let through_cli = prop != Prop::C07
                && ((matches!(family, "union" | "lattice" | "er") && i < cli_cases)
                    || (family == "all3" && i % ctx.tier.pick(43, 5) == 2))
                && case.abs.n >= 1
                && case.abs.n <= 7;
            crate::report::guarded(ctx, |ctx| eval_case(ctx, prop, &case, &mut rng, None, through_cli));
            let dt = t0.elapsed().as_millis() as u64;
            ctx.maximum("slowest_case_ms", dt);
            if dt > 5_000 {
                ctx.count("cases_slower_than_5s");
                eprintln!("slow case {} ms: {} {}", dt, family, case.to_json());
            }
        }
    }
}

pub fn replay(ctx: &mut Ctx, prop: Prop, case: &Value, detail: &Value) -> Result<(), String> {
    let c = StaticCase::from_json(case).ok_or("cannot parse static case")?;
    let mut rng = Rng::from_path(&[ctx.seed, 0x5e]);
    let focus = detail
        .get("query")
        .and_then(|q| q.get("args"))
        .or_else(|| detail.get("arguments"))
        .and_then(|a| a.as_array())
        .map(|a| a.iter().filter_map(|x| x.as_u64().map(|x| x as usize)).collect::<Vec<_>>())
        .filter(|v: &Vec<usize>| !v.is_empty());
    let through_cli = case.get("graph").and_then(|g| g.get("n")).and_then(|n| n.as_u64()).map(|n| n >= 1 && n <= 7).unwrap_or(false);
    eval_case(ctx, prop, &c, &mut rng, focus, through_cli && prop != Prop::C07);
    Ok(())
}
