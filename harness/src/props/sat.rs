//! Checks C15 (incremental SAT contract), C16 (exchange with an external solver), C17 (failing backend).

use crate::cases::{gen_case, GenLimits, StaticCase};
use crate::dpll::{dpll, is_model, truth_table_sat};
use crate::extcall::{call_in_subprocess, CallOutcome, ExtResult, ExtSpec};
use crate::monitor::{self, lit_value, model_values, Backend};
use crate::present::{build_string, build_usize, Built, HLabel};
use crate::props::dynamic::{self, DynKind, HOp, HistCase};
use crate::props::static_eval::{exp_cost_built, targets, Target, EXP_COST_LIMIT};
use crate::report::{catch, Ctx, Tier};
use crate::rng::{Hasher64, Rng};
use crate::solvers::{ask_fresh, Enc, QKind, QOut, Query};
use crustabri::sat::{Literal, SatSolver, SolvingResult};
use serde_json::{json, Value};
use std::time::Duration;

fn msat_path(ctx: &Ctx) -> String {
    ctx.bin_dir.join("msat").to_string_lossy().to_string()
}

fn cverif_path(ctx: &Ctx) -> std::path::PathBuf {
    ctx.bin_dir.join("cverif")
}

// =============================================================================================
// C15
// =============================================================================================

#[derive(Clone, Debug, PartialEq)]
pub enum SOp {
    Add(Vec<isize>),
    Reserve(usize),
    Solve(Vec<isize>),
}

impl SOp {
    fn to_json(&self) -> Value {
        match self {
            SOp::Add(c) => json!(["add", c]),
            SOp::Reserve(n) => json!(["reserve", n]),
            SOp::Solve(a) => json!(["solve", a]),
        }
    }
    fn from_json(v: &Value) -> Option<SOp> {
        let a = v.as_array()?;
        let ints = |x: &Value| -> Option<Vec<isize>> {
            x.as_array()?.iter().map(|y| y.as_i64().map(|y| y as isize)).collect()
        };
        match a.first()?.as_str()? {
            "add" => Some(SOp::Add(ints(a.get(1)?)?)),
            "reserve" => Some(SOp::Reserve(a.get(1)?.as_u64()? as usize)),
            "solve" => Some(SOp::Solve(ints(a.get(1)?)?)),
            _ => None,
        }
    }
}

fn gen_sat_history(rng: &mut Rng, len: usize) -> Vec<SOp> {
    let nv = rng.range(1, 9);
    let lit = |rng: &mut Rng, maxv: usize| -> isize {
        let v = rng.range(1, maxv) as isize;
        if rng.pct(50) {
            v
        } else {
            -v
        }
    };
    let mut ops = Vec::new();
    let style = rng.below(5);
    match style {
        0 => {
            // pigeonhole 3 -> 2, added incrementally with solves in between
            let p = |i: usize, h: usize| -> isize { (i * 2 + h + 1) as isize };
            for i in 0..3 {
                ops.push(SOp::Add(vec![p(i, 0), p(i, 1)]));
                ops.push(SOp::Solve(vec![]));
            }
            for h in 0..2 {
                for i in 0..3 {
                    for j in (i + 1)..3 {
                        ops.push(SOp::Add(vec![-p(i, h), -p(j, h)]));
                    }
                }
                ops.push(SOp::Solve(vec![p(0, h)]));
            }
            ops.push(SOp::Solve(vec![]));
        }
        1 => {
            // implication chain x1 -> x2 -> ... -> xn, probed with assumptions
            let n = rng.range(2, 9);
            for i in 1..n {
                ops.push(SOp::Add(vec![-(i as isize), (i + 1) as isize]));
            }
            ops.push(SOp::Solve(vec![1, -(n as isize)]));
            ops.push(SOp::Solve(vec![1]));
            ops.push(SOp::Solve(vec![-(n as isize)]));
            ops.push(SOp::Add(vec![1]));
            ops.push(SOp::Solve(vec![]));
            ops.push(SOp::Add(vec![-(n as isize)]));
            ops.push(SOp::Solve(vec![]));
        }
        _ => {}
    }
    while ops.len() < len {
        match rng.weighted(&[10, 2, 3, 5]) {
            0 => {
                let k = rng.weighted(&[1, 4, 6, 8, 3, 1]); // clause length 0..5 (0 = empty clause, rare)
                let k = if k == 0 && !rng.pct(15) { 1 } else { k };
                let mut c: Vec<isize> = (0..k).map(|_| lit(rng, nv)).collect();
                if rng.pct(8) && !c.is_empty() {
                    let l = c[0];
                    c.push(if rng.pct(50) { l } else { -l }); // duplicate literal or tautology
                }
                ops.push(SOp::Add(c));
            }
            1 => ops.push(SOp::Reserve(rng.range(0, nv + 4))),
            2 => ops.push(SOp::Solve(vec![])),
            _ => {
                let k = rng.range(1, 4);
                // assumptions may concern variables never seen in a clause or a reservation
                let mut a: Vec<isize> = (0..k).map(|_| lit(rng, nv + 3)).collect();
                if rng.pct(10) {
                    let l = a[0];
                    a.push(-l); // contradictory pair
                }
                ops.push(SOp::Solve(a));
                if rng.pct(40) {
                    ops.push(SOp::Solve(vec![])); // assumptions must not outlive the call
                }
            }
        }
    }
    ops
}

fn sat_case_json(backend: &Backend, ops: &[SOp]) -> Value {
    json!({"backend": backend.name(), "backend_spec": match backend {
        Backend::External(p, o) => json!({"program": p, "options": o}),
        _ => Value::Null,
    }, "ops": ops.iter().map(|o| o.to_json()).collect::<Vec<_>>()})
}

/// Drives one incremental history on one backend; first contract breach wins.
fn judge_sat_history(backend: &Backend, ops: &[SOp], counts: &mut Vec<String>) -> Option<(String, Value)> {
    let bname = match backend {
        Backend::External(p, _) => format!("ext:{}", p.rsplit('/').next().unwrap_or(p)),
        b => b.name(),
    };
    let mut solver = backend.make();
    let mut clauses: Vec<Vec<isize>> = Vec::new();
    let mut max_var = 0usize;
    let mut max_reserved = 0usize;
    let mut last_n_vars = 0usize;
    for (step, op) in ops.iter().enumerate() {
        let r = catch(|| match op {
            SOp::Add(c) => {
                solver.add_clause(c.iter().map(|l| Literal::from(*l)).collect());
                None
            }
            SOp::Reserve(n) => {
                solver.reserve(*n);
                None
            }
            SOp::Solve(a) => {
                let lits: Vec<Literal> = a.iter().map(|l| Literal::from(*l)).collect();
                let res = if a.is_empty() {
                    solver.solve()
                } else {
                    solver.solve_under_assumptions(&lits)
                };
                Some(res)
            }
        });
        let res = match r {
            Err(p) => {
                return Some((
                    format!("C15/panic/{}/{}", bname, p.site()),
                    json!({"step": step, "op": op.to_json(), "panic": p.to_json()}),
                ))
            }
            Ok(x) => x,
        };
        match op {
            SOp::Add(c) => {
                for l in c {
                    max_var = max_var.max(l.unsigned_abs());
                }
                clauses.push(c.clone());
            }
            SOp::Reserve(n) => max_reserved = max_reserved.max(*n),
            SOp::Solve(_) => {}
        }
        let nv = solver.n_vars();
        if nv < last_n_vars {
            return Some((
                format!("C15/n_vars-decreased/{}", bname),
                json!({"step": step, "op": op.to_json(), "before": last_n_vars, "after": nv}),
            ));
        }
        last_n_vars = nv;
        if nv < max_var || nv < max_reserved {
            return Some((
                format!("C15/n_vars-below-declared/{}", bname),
                json!({"step": step, "op": op.to_json(), "n_vars": nv, "max_var_in_clauses": max_var, "max_reserved": max_reserved}),
            ));
        }
        if let (SOp::Solve(a), Some(res)) = (op, res) {
            let mut nvars = max_var.max(max_reserved);
            for l in a {
                nvars = nvars.max(l.unsigned_abs());
            }
            let truth = if nvars <= 14 {
                truth_table_sat(nvars, &clauses, a)
            } else if clauses.len() > 150 && nvars <= 400 {
                // hard instances (pigeonhole): the `cadical` crate used directly, not crustabri's wrapper
                let mut r: cadical::Solver = cadical::Solver::new();
                for c in clauses.iter() {
                    r.add_clause(c.iter().map(|l| *l as i32));
                }
                match r.solve_with(a.iter().map(|l| *l as i32)) {
                    Some(b) => b,
                    None => return None,
                }
            } else {
                dpll(nvars, &clauses, a).is_some()
            };
            counts.push(format!("solves/{}/{}", bname, if truth { "sat" } else { "unsat" }));
            if a.iter().any(|l| l.unsigned_abs() > max_var.max(max_reserved)) {
                counts.push(format!("coverage/assumption-on-unseen-variable/{}", bname));
            }
            let detail = |what: &str, extra: Value| -> Value {
                json!({"step": step, "op": op.to_json(), "what": what, "clauses_so_far": clauses, "reference_satisfiable": truth, "extra": extra})
            };
            match res {
                SolvingResult::Satisfiable(asg) => {
                    if !truth {
                        return Some((
                            format!("C15/verdict/{}/sat-but-reference-unsat", bname),
                            detail("backend reported a model although no model exists", Value::Null),
                        ));
                    }
                    let nv_now = solver.n_vars();
                    let m = match model_values(&asg, nv_now) {
                        Ok(m) => m,
                        Err(e) => {
                            return Some((
                                format!("C15/model-not-queryable/{}", bname),
                                detail(&e, json!({"n_vars": nv_now})),
                            ))
                        }
                    };
                    for l in a {
                        if lit_value(&m, *l) != Some(true) {
                            return Some((
                                format!("C15/model-violates-assumption/{}", bname),
                                detail("assumption not true in the model", json!({"assumption": l, "model": m})),
                            ));
                        }
                    }
                    for c in clauses.iter() {
                        if c.iter().all(|l| lit_value(&m, *l) == Some(false)) {
                            return Some((
                                format!("C15/model-falsifies-clause/{}", bname),
                                detail("clause false in the model", json!({"clause": c, "model": m})),
                            ));
                        }
                    }
                }
                SolvingResult::Unsatisfiable => {
                    if truth {
                        return Some((
                            format!("C15/verdict/{}/unsat-but-reference-sat", bname),
                            detail("backend reported unsatisfiable although a model exists", Value::Null),
                        ));
                    }
                }
                SolvingResult::Unknown => {
                    return Some((
                        format!("C15/verdict/{}/undecided", bname),
                        detail("backend did not decide an instance the embedded solver decides", Value::Null),
                    ));
                }
            }
        }
    }
    None
}

fn shrink_sat(backend: &Backend, ops: &[SOp], sig: &str) -> Vec<SOp> {
    let mut cur = ops.to_vec();
    let mut budget = if matches!(backend, Backend::External(..)) { 60 } else { 1500 };
    loop {
        let mut progressed = false;
        let mut i = cur.len();
        while i > 0 && budget > 0 {
            i -= 1;
            budget -= 1;
            let mut cand = cur.clone();
            cand.remove(i);
            let mut c = Vec::new();
            if judge_sat_history(backend, &cand, &mut c).map(|(s, _)| s == sig).unwrap_or(false) {
                cur = cand;
                progressed = true;
            }
        }
        if !progressed || budget == 0 {
            break;
        }
    }
    cur
}

fn eval_sat_history(ctx: &mut Ctx, backend: &Backend, ops: &[SOp]) {
    let mut counts = Vec::new();
    let r = judge_sat_history(backend, ops, &mut counts);
    ctx.evals_by(ops.len() as u64);
    for k in counts {
        ctx.count(&k);
    }
    ctx.count(&format!("histories/{}", backend.name()));
    if let Some((sig, detail)) = r {
        let small = if ctx.replay_mode { ops.to_vec() } else { shrink_sat(backend, ops, &sig) };
        let mut c = Vec::new();
        let d = judge_sat_history(backend, &small, &mut c).map(|(_, d)| d).unwrap_or(detail);
        ctx.violation(&sig, d, &sat_case_json(backend, &small));
        return;
    }
    let n_solves = ops.iter().filter(|o| matches!(o, SOp::Solve(_))).count();
    if n_solves >= 2 {
        let mut h = Hasher64::new();
        h.str(&serde_json::to_string(&sat_case_json(backend, ops)).unwrap());
        ctx.nontrivial(h.finish());
    }
    ctx.sample(&format!("history/{}", backend.name()), || sat_case_json(backend, ops));
}

/// The contract on real call streams: argumentation queries under the monitor, per backend.
fn eval_real_stream(ctx: &mut Ctx, backend: &Backend, case: &StaticCase, rng: &mut Rng) {
    fn go<T: HLabel>(ctx: &mut Ctx, backend: &Backend, case: &StaticCase, built: &Built<T>, rng: &mut Rng) {
        let ts: Vec<Target> = targets().into_iter().filter(|t| t.ty != crate::solvers::SolverType::Grounded).collect();
        let cost = exp_cost_built(built);
        for _ in 0..3 {
            let t = &ts[rng.below(ts.len())];
            let encs: Vec<Enc> = t.ty.encoders(t.kind).iter().copied().filter(|e| !(*e == Enc::ExpCo && cost > EXP_COST_LIMIT)).collect();
            let enc = encs[rng.below(encs.len())];
            if case.abs.n == 0 && t.kind != QKind::SE {
                continue;
            }
            let q = Query {
                kind: t.kind,
                args: if t.kind == QKind::SE { vec![] } else { vec![rng.below(case.abs.n)] },
                cert: rng.pct(50),
            };
            let h = monitor::new_handle();
            h.borrow_mut().cap = Some(5000);
            let fac = monitor::monitored_factory(backend.clone(), h.clone());
            let _ = ask_fresh(built, t.ty, enc, fac, &q);
            ctx.eval();
            let s = h.borrow();
            ctx.count_by(&format!("real_stream_sat_calls/{}", backend.name()), s.n_calls as u64);
            if let Some(e) = s.contract_errors.first() {
                let e = e.clone();
                drop(s);
                ctx.violation(
                    &format!("C15/contract-on-real-call-stream/{}/{}", backend.name(), t.problem()),
                    json!({"error": e, "problem": t.problem(), "encoder": enc.name(), "query": q.to_json()}),
                    &json!({"real_stream": case.to_json(), "backend": backend.name()}),
                );
                return;
            }
        }
    }
    if case.pres.is_usize() {
        if let Ok(b) = build_usize(&case.pres) {
            go(ctx, backend, case, &b, rng);
        }
    } else if let Ok(b) = build_string(&case.pres) {
        go(ctx, backend, case, &b, rng);
    }
}

pub fn backends(ctx: &Ctx) -> Vec<Backend> {
    vec![
        Backend::Cadical,
        Backend::External(msat_path(ctx), vec![]),
        Backend::External("kissat".to_string(), vec!["-q".to_string()]),
    ]
}

pub fn run_c15(ctx: &mut Ctx) {
    let n: u64 = ctx.tier.pick(60_000, 1_000_000);
    let bs = backends(ctx);
    let lim = GenLimits::default();
    for i in 0..n {
        if !ctx.mine(i) {
            continue;
        }
        if ctx.out_of_time() {
            return;
        }
        if i % 128 == 0 {
            ctx.case_begin(&json!({"i": i}));
        }
        let mut rng = Rng::from_path(&[ctx.seed, 15, i]);
        // the embedded solver gets most histories (cheap); each external solve is a process
        let b = match rng.weighted(&[16, 2, 1]) {
            0 => &bs[0],
            1 => &bs[1],
            _ => &bs[2],
        };
        let len = if matches!(b, Backend::Cadical) { rng.range(5, 60) } else { rng.range(4, 16) };
        let ops = if !matches!(b, Backend::Cadical) && rng.pct(3) {
            // an instance whose DIMACS text is larger than a pipe buffer (64 KiB): an implication chain
            // of 5 200-7 000 variables, decided by propagation under the assumptions used here
            let n = rng.range(5_200, 7_000) as isize;
            let mut ops: Vec<SOp> = (1..n).map(|i| SOp::Add(vec![-i, i + 1])).collect();
            ops.push(SOp::Solve(vec![1]));
            ops.push(SOp::Solve(vec![1, -n]));
            ops.push(SOp::Solve(vec![-n]));
            ops.push(SOp::Add(vec![1]));
            ops.push(SOp::Solve(vec![]));
            ctx.count("histories/instance-text-above-64KiB");
            ops
        } else if matches!(b, Backend::Cadical) && i % 6_001 == 17 {
            // a hard instance behind a selector: pigeonhole 10 -> 9 (tens of thousands of conflicts), every
            // clause guarded by -s; satisfiable without the assumption s, unsatisfiable under it
            let (p, h) = (10isize, 9isize);
            let var = |i: isize, j: isize| -> isize { i * h + j + 1 };
            let s = p * h + 1;
            let mut ops: Vec<SOp> = Vec::new();
            for i in 0..p {
                let mut c: Vec<isize> = (0..h).map(|j| var(i, j)).collect();
                c.push(-s);
                ops.push(SOp::Add(c));
            }
            for j in 0..h {
                for i in 0..p {
                    for k in (i + 1)..p {
                        ops.push(SOp::Add(vec![-var(i, j), -var(k, j), -s]));
                    }
                }
            }
            ops.push(SOp::Solve(vec![s]));
            ops.push(SOp::Solve(vec![]));
            ops.push(SOp::Solve(vec![-s, var(0, 0)]));
            ops.push(SOp::Solve(vec![s, var(0, 0)]));
            ctx.count("histories/hard-instance-behind-a-selector");
            ops
        } else {
            let mut ops = gen_sat_history(&mut rng, len);
            if rng.pct(8) {
                // variable ids spread over several 64-blocks, several variables sharing a residue modulo 64
                // (half of these: ids that are exact multiples of 64, the last bit of a word)
                let exact = rng.pct(50);
                let f = |l: isize| -> isize {
                    let v = l.unsigned_abs() as isize;
                    let nv = if exact { if v % 2 == 0 { 64 * (v / 2 + 1) } else { 64 * (v / 2) + 1 } } else { 1 + (v % 3) + 64 * (v / 3) };
                    if l > 0 { nv } else { -nv }
                };
                for op in ops.iter_mut() {
                    match op {
                        SOp::Add(c) => c.iter_mut().for_each(|l| *l = f(*l)),
                        SOp::Solve(a) => a.iter_mut().for_each(|l| *l = f(*l)),
                        SOp::Reserve(n) => *n = if exact { 64 * (*n / 2 + 1) } else { 1 + (*n % 3) + 64 * (*n / 3) },
                    }
                }
                ctx.count("histories/variable-ids-spread-over-64-blocks");
            }
            ops
        };
        crate::report::guarded(ctx, |ctx| eval_sat_history(ctx, b, &ops));
        if rng.pct(if matches!(b, Backend::Cadical) { 10 } else { 25 }) {
            let fam = *rng.pick(&["er-small", "union", "lattice"]);
            let case = gen_case(fam, i, ctx.seed, &lim);
            if case.abs.n <= 7 {
                crate::report::guarded(ctx, |ctx| eval_real_stream(ctx, b, &case, &mut rng));
            }
        }
    }
}

fn backend_from_case(ctx: &Ctx, case: &Value) -> Backend {
    match case.get("backend").and_then(|b| b.as_str()) {
        Some("cadical") | None => Backend::Cadical,
        Some("dpll") => Backend::Dpll,
        Some(_) => {
            let spec = &case["backend_spec"];
            let prog = spec.get("program").and_then(|p| p.as_str()).unwrap_or("");
            let opts: Vec<String> = spec
                .get("options")
                .and_then(|o| o.as_array())
                .map(|a| a.iter().filter_map(|x| x.as_str().map(|s| s.to_string())).collect())
                .unwrap_or_default();
            // a replay file may come from another build directory: re-resolve msat
            if prog.ends_with("/msat") {
                Backend::External(msat_path(ctx), opts)
            } else {
                Backend::External(prog.to_string(), opts)
            }
        }
    }
}

pub fn replay_c15(ctx: &mut Ctx, case: &Value) -> Result<(), String> {
    if let Some(rs) = case.get("real_stream") {
        let c = StaticCase::from_json(rs).ok_or("bad real_stream case")?;
        let b = backend_from_case(ctx, case);
        let mut rng = Rng::new(5);
        for _ in 0..20 {
            eval_real_stream(ctx, &b, &c, &mut rng);
        }
        return Ok(());
    }
    let ops: Vec<SOp> = case
        .get("ops")
        .and_then(|o| o.as_array())
        .ok_or("no ops")?
        .iter()
        .map(SOp::from_json)
        .collect::<Option<Vec<_>>>()
        .ok_or("bad ops")?;
    let b = backend_from_case(ctx, case);
    eval_sat_history(ctx, &b, &ops);
    Ok(())
}

// =============================================================================================
// C16
// =============================================================================================

/// Reads and clears the msat log; returns the parsed lines.
fn drain_msat_log(path: &std::path::Path) -> Vec<Value> {
    let text = std::fs::read_to_string(path).unwrap_or_default();
    let _ = std::fs::write(path, b"");
    text.lines().filter_map(|l| serde_json::from_str(l).ok()).collect()
}

/// (a) every DIMACS instance produced by real argumentation queries must be well-formed.
fn c16_real_streams(ctx: &mut Ctx, case: &StaticCase, rng: &mut Rng, focus: Option<&Value>) {
    fn go<T: HLabel>(ctx: &mut Ctx, case: &StaticCase, built: &Built<T>, rng: &mut Rng, focus: Option<&Value>) {
        let log = ctx.out_dir.join(format!("msat-{}.log", ctx.shard));
        let _ = std::fs::write(&log, b"");
        let backend = Backend::External(msat_path(ctx), vec![format!("log={}", log.to_string_lossy())]);
        let cost = exp_cost_built(built);
        let ts: Vec<Target> = targets().into_iter().filter(|t| t.ty != crate::solvers::SolverType::Grounded).collect();
        let mut plan: Vec<(Target, Enc, Query)> = Vec::new();
        if let Some(f) = focus {
            // replay: the recorded (problem, encoder, query)
            let prob = f.get("problem").and_then(|x| x.as_str()).unwrap_or("");
            let enc = f.get("encoder").and_then(|x| x.as_str()).and_then(Enc::from_name);
            let q = f.get("query");
            for t in ts.iter() {
                if t.problem() == prob {
                    if let (Some(enc), Some(q)) = (enc, q) {
                        let args: Vec<usize> = q["args"].as_array().map(|a| a.iter().filter_map(|x| x.as_u64().map(|x| x as usize)).collect()).unwrap_or_default();
                        plan.push((t.clone(), enc, Query { kind: t.kind, args, cert: q["cert"].as_bool().unwrap_or(false) }));
                    }
                }
            }
        } else {
            for t in ts.iter() {
                if !rng.pct(45) {
                    continue;
                }
                let encs: Vec<Enc> = t.ty.encoders(t.kind).iter().copied().filter(|e| !(*e == Enc::ExpCo && cost > EXP_COST_LIMIT)).collect();
                let enc = encs[rng.below(encs.len())];
                if case.abs.n == 0 && t.kind != QKind::SE {
                    continue;
                }
                let args = if t.kind == QKind::SE {
                    vec![]
                } else if rng.pct(25) && case.abs.n >= 2 && t.sem == t.ty.sem() {
                    vec![rng.below(case.abs.n), rng.below(case.abs.n)]
                } else {
                    vec![rng.below(case.abs.n)]
                };
                plan.push((t.clone(), enc, Query { kind: t.kind, args, cert: rng.pct(50) }));
            }
        }
        for (t, enc, q) in plan {
            let fac = monitor::plain_factory(backend.clone());
            let r = ask_fresh(built, t.ty, enc, fac, &q);
            ctx.eval();
            let entries = drain_msat_log(&log);
            ctx.count_by("dimacs_instances_validated", entries.len() as u64);
            ctx.count(&format!("queries_through_external/{}", t.problem()));
            let mut bad: Option<Value> = None;
            for e in entries.iter() {
                let errs = e["syntax_errors"].as_array().cloned().unwrap_or_default();
                if !errs.is_empty() {
                    bad = Some(e.clone());
                    break;
                }
                // buckets of request sizes seen
                let b = e["bytes_in"].as_u64().unwrap_or(0);
                ctx.count(if b < 1024 { "request_bytes/<1KiB" } else if b < 65536 { "request_bytes/1-64KiB" } else { "request_bytes/>64KiB" });
            }
            if let Some(e) = bad {
                let first = e["syntax_errors"][0].as_str().unwrap_or("").to_string();
                let class: String = first.chars().filter(|c| !c.is_ascii_digit()).collect();
                ctx.violation(
                    &format!("C16/malformed-dimacs/{}/{}", class.trim_matches('-'), t.problem()),
                    json!({"problem": t.problem(), "encoder": enc.name(), "query": q.to_json(), "msat_log": e,
                           "query_outcome": match &r { Ok(o) => o.to_json(), Err(p) => p.to_json() }}),
                    &json!({"sub": "real-stream", "case": case.to_json()}),
                );
                return;
            }
            if entries.len() >= 2 {
                let s = format!("{:?}", q.args);
                ctx.nontrivial(crate::gen::case_hash(&case.abs, &[&t.problem(), enc.name(), &s]));
            }
        }
    }
    if case.pres.is_usize() {
        if let Ok(b) = build_usize(&case.pres) {
            go(ctx, case, &b, rng, focus);
        }
    } else if let Ok(b) = build_string(&case.pres) {
        go(ctx, case, &b, rng, focus);
    }
}

/// (a') the same validation for instances produced by *direct* use of the public `SatSolver` API of
/// `ExternalSatSolver` (clauses, reservations and assumption patterns that no argumentation solver
/// produces: assumptions on variables above every clause, negative ones, repeated ones, ...).
fn c16_api_stream(ctx: &mut Ctx, rng: &mut Rng, replay_ops: Option<Vec<SOp>>) {
    let log = ctx.out_dir.join(format!("msat-api-{}.log", ctx.shard));
    let _ = std::fs::write(&log, b"");
    let backend = Backend::External(msat_path(ctx), vec![format!("log={}", log.to_string_lossy())]);
    let ops = match replay_ops {
        Some(o) => o,
        None => {
            let len = rng.range(3, 12);
            let mut ops = gen_sat_history(rng, len);
            // assumption vectors of 1-3 literals on fresh variables, all sign patterns
            if rng.pct(50) {
                let top = 12 + rng.below(4) as isize;
                let k = rng.range(1, 3);
                let a: Vec<isize> = (0..k).map(|_| { let v = rng.range(1, top as usize) as isize; if rng.pct(50) { v } else { -v } }).collect();
                ops.push(SOp::Solve(a));
            }
            ops
        }
    };
    let mut solver = backend.make();
    for op in ops.iter() {
        let _ = catch(|| match op {
            SOp::Add(c) => solver.add_clause(c.iter().map(|l| Literal::from(*l)).collect()),
            SOp::Reserve(n) => solver.reserve(*n),
            SOp::Solve(a) => {
                let lits: Vec<Literal> = a.iter().map(|l| Literal::from(*l)).collect();
                let _ = if a.is_empty() { solver.solve() } else { solver.solve_under_assumptions(&lits) };
            }
        });
    }
    ctx.eval();
    let entries = drain_msat_log(&log);
    ctx.count_by("dimacs_instances_validated", entries.len() as u64);
    ctx.count_by("dimacs_instances_validated/sat-api-histories", entries.len() as u64);
    for e in entries.iter() {
        let errs = e["syntax_errors"].as_array().cloned().unwrap_or_default();
        if let Some(first) = errs.first().and_then(|x| x.as_str()) {
            let class: String = first.chars().filter(|c| !c.is_ascii_digit()).collect();
            ctx.violation(
                &format!("C16/malformed-dimacs/{}/sat-api-history", class.trim_matches('-')),
                json!({"msat_log": e}),
                &json!({"sub": "api-stream", "ops": ops.iter().map(|o| o.to_json()).collect::<Vec<_>>()}),
            );
            return;
        }
    }
    if entries.len() >= 2 {
        let mut h = Hasher64::new();
        h.str(&serde_json::to_string(&ops.iter().map(|o| o.to_json()).collect::<Vec<_>>()).unwrap());
        ctx.nontrivial(h.finish());
    }
}

/// A CNF with exactly one model (units of random polarity plus implied clauses).
fn unique_model_cnf(rng: &mut Rng, n_vars: usize, extra_clauses: usize) -> (Vec<Vec<isize>>, Vec<bool>) {
    let model: Vec<bool> = (0..n_vars).map(|_| rng.pct(50)).collect();
    let lit_true = |v: usize| -> isize {
        if model[v] {
            (v + 1) as isize
        } else {
            -((v + 1) as isize)
        }
    };
    let mut cl: Vec<Vec<isize>> = (0..n_vars).map(|v| vec![lit_true(v)]).collect();
    for _ in 0..extra_clauses {
        let a = rng.below(n_vars);
        let b = rng.below(n_vars);
        let lb = if rng.pct(50) { (b + 1) as isize } else { -((b + 1) as isize) };
        cl.push(vec![lit_true(a), lb]);
    }
    (cl, model)
}

struct ExchangeCase {
    spec: ExtSpec,
    /// what must come back: "sat-exact" (with this model), "unsat", "undecided-or-abort"
    expect: String,
    model: Vec<bool>,
    bucket: String,
}

impl ExchangeCase {
    fn to_json(&self) -> Value {
        // the clause list can be very large: store its generator parameters instead when big
        let mut spec = self.spec.to_json();
        if self.spec.clauses.len() > 400 {
            if let Value::Object(m) = &mut spec {
                m.insert("clauses".to_string(), json!(format!("<{} clauses elided>", self.spec.clauses.len())));
            }
        }
        json!({"sub": "exchange", "spec": spec, "expect": self.expect, "bucket": self.bucket,
               "n_vars": self.model.len(), "n_clauses": self.spec.clauses.len()})
    }
}

fn judge_exchange(ctx: &mut Ctx, ec: &ExchangeCase, timeout: Duration) {
    ctx.eval();
    ctx.count(&format!("exchange/{}", ec.bucket));
    if let Some(e) = ec.spec.options.iter().find_map(|o| o.strip_prefix("exit=")) {
        ctx.count(&format!("exchange_exit_status/{}", e));
    }
    if ec.bucket.contains("pad>16MiB") {
        ctx.count("exchanges_with_reply_above_16MiB");
    }
    if ec.bucket.contains("stderr/") {
        ctx.count("exchanges_with_stderr_volume");
        if !ec.bucket.contains("stderr/pad<60KiB") {
            ctx.count("exchanges_with_stderr_volume_above_pipe_capacity");
        }
    }
    let out = call_in_subprocess(&cverif_path(ctx), &ec.spec, timeout, &ctx.out_dir.clone());
    match out {
        CallOutcome::HarnessError(e) => ctx.harness_error(&e),
        CallOutcome::Stuck(witness, ev) => {
            if witness {
                ctx.count("deadlock_witnesses");
                ctx.violation(
                    &format!("C16/call-does-not-return/deadlock-witness/{}", ec.bucket),
                    json!({"what": "ExternalSatSolver::solve did not return; parent sleeps in wait while the child sleeps writing to the full stdout pipe", "evidence": ev}),
                    &ec.to_json(),
                );
            } else {
                ctx.inconclusive("call-stuck-without-deadlock-witness");
                eprintln!("stuck without witness: {} {}", ec.to_json(), ev);
            }
        }
        CallOutcome::Returned(r, dt) => {
            ctx.maximum("slowest_exchange_ms", dt.as_millis() as u64);
            let ok = match (ec.expect.as_str(), &r) {
                ("sat-exact", ExtResult::Sat(m)) => {
                    m.len() >= ec.model.len() && ec.model.iter().enumerate().all(|(i, b)| m[i] == Some(*b))
                }
                ("unsat", ExtResult::Unsat) | ("unsat-or-abort", ExtResult::Unsat) => true,
                ("sat-exact-or-abort", ExtResult::Sat(m)) => {
                    m.len() >= ec.model.len() && ec.model.iter().enumerate().all(|(i, b)| m[i] == Some(*b))
                }
                ("sat-exact-or-abort", ExtResult::Unknown) | ("sat-exact-or-abort", ExtResult::Panic(_)) => true,
                ("unsat-or-abort", ExtResult::Unknown) | ("unsat-or-abort", ExtResult::Panic(_)) => true,
                ("undecided-or-abort", ExtResult::Unknown) | ("undecided-or-abort", ExtResult::Panic(_)) => true,
                _ => false,
            };
            if ok {
                ctx.count(&format!("exchange_ok/{}", r.class()));
                let mut h = Hasher64::new();
                h.str(&ec.bucket);
                h.usize(ec.spec.clauses.len());
                h.str(&ec.spec.options.join(" "));
                ctx.nontrivial(h.finish());
                ctx.sample(&format!("exchange/{}", ec.bucket), || ec.to_json());
            } else {
                let got = match &r {
                    ExtResult::Sat(m) => json!({"result": "sat", "model_prefix": m.iter().take(12).collect::<Vec<_>>()}),
                    other => other.to_json(),
                };
                ctx.violation(
                    &format!("C16/reply-misinterpreted/{}/expected-{}/got-{}", ec.bucket, ec.expect, r.class()),
                    json!({"expected": ec.expect, "observed": got, "expected_model_prefix": ec.model.iter().take(12).collect::<Vec<_>>()}),
                    &ec.to_json(),
                );
            }
        }
    }
}

fn size_bucket(b: usize) -> &'static str {
    if b == 0 {
        "pad0"
    } else if b < 60 * 1024 {
        "pad<60KiB"
    } else if b <= 70 * 1024 {
        "pad60-70KiB"
    } else if b <= 512 * 1024 {
        "pad70-512KiB"
    } else if b <= 16 * 1024 * 1024 {
        "pad>512KiB"
    } else {
        "pad>16MiB"
    }
}

pub const REPLY_FAULTS: [&str; 17] = [
    "non-utf8-garbage-line",
    "non-utf8-byte-in-value-line",
    "truncated-model-after-minus",
    "truncated-model-at-byte",
    "zero-mid-model",
    "garbage-after-reply",
    "double-status-unsat-first",
    "exit-silent",
    "status-only",
    "truncated-model",
    "truncated-model-midnumber",
    "garbage-line",
    "unknown-status",
    "wrong-var",
    "double-status",
    "crash",
    "exit-code",
];

fn gen_exchange(ctx: &Ctx, rng: &mut Rng, idx: u64) -> ExchangeCase {
    let msat = msat_path(ctx);
    let kind = idx % 4;
    // instance
    let big_model = rng.pct(12);
    let n_vars = if big_model { rng.range(15_000, 22_000) } else { rng.range(1, 40) };
    let big_request = !big_model && rng.pct(12);
    let extra = if big_request { rng.range(9_000, 14_000) } else { rng.range(0, 30) };
    let (mut clauses, model) = unique_model_cnf(rng, n_vars, extra);
    let sat = rng.pct(70);
    if !sat {
        // contradict one unit
        let v = rng.below(n_vars);
        let l = clauses[v][0];
        clauses.push(vec![-l]);
    }
    let mut opts: Vec<String> = Vec::new();
    let mut bucket_parts: Vec<String> = Vec::new();
    match kind {
        0 | 1 => {
            // volume sweep
            let pad = match rng.below(8) {
                0 => 0,
                1 => 1024,
                2 | 3 | 4 => (60 + rng.below(11)) * 1024,
                5 => 256 * 1024,
                6 => rng.range(1, 64) * 1024,
                // now and then tens of MiB (any in-memory bound on the reply that is smaller than that)
                _ if rng.pct(15) => *rng.pick(&[17usize, 20, 33, 40]) * 1024 * 1024 + rng.below(200_000),
                _ => 4 * 1024 * 1024,
            };
            if pad > 0 {
                opts.push(format!("pad={},{}", pad, if rng.pct(50) { "before" } else { "after" }));
            }
            opts.push(format!("vsplit={}", rng.pick(&[0usize, 1, 10])));
            if rng.pct(20) {
                opts.push("crlf".to_string());
            }
            bucket_parts.push(format!("volume/{}", size_bucket(pad)));
            // a verbose solver: diagnostics on stderr, below and above the pipe capacity
            if rng.pct(30) {
                let e = match rng.below(4) {
                    0 => 1024,
                    1 | 2 => (60 + rng.below(11)) * 1024,
                    _ => 300 * 1024,
                };
                opts.push(format!("errpad={},{}", e, if rng.pct(50) { "before" } else { "after" }));
                bucket_parts.push(format!("stderr/{}", size_bucket(e)));
            }
        }
        2 => {
            // schedules
            let mode = *rng.pick(&["early-out", "slow-read:1", "no-read", "close-stdout-early"]);
            opts.push(format!("mode={}", mode));
            if mode == "early-out" {
                opts.push(format!("pad={}", rng.pick(&[0usize, 1024, 70 * 1024, 300 * 1024])));
            }
            bucket_parts.push(format!("schedule/{}", mode.split(':').next().unwrap()));
        }
        _ if rng.pct(7) => {
            // a reply that is honest apart from a comment line that is not valid UTF-8: whether that is
            // "malformed" is open, so the only wrong outcome is a result that differs from the honest one
            opts.push("fault=non-utf8-comment@*".to_string());
            bucket_parts.push("odd-reply/non-utf8-comment".to_string());
        }
        _ => {
            let f = REPLY_FAULTS[rng.below(REPLY_FAULTS.len())];
            opts.push(format!("fault={}@*", f));
            opts.push(format!("cut={}", rng.below(1000)));
            opts.push(format!("vsplit={}", rng.pick(&[0usize, 1, 10])));
            bucket_parts.push(format!("malformed-reply/{}", f));
        }
    }
    // the exit status of the process: real solvers exit with 10 / 20 (and 0, 1, ... on trouble); what the
    // status says never stands for a reply that is missing or broken, and never spoils one that is there
    if rng.pct(45) {
        let e = *rng.pick(&["conv", "conv", "20", "10", "1", "0", "255"]);
        opts.push(format!("exit={}", e));
    }
    if big_model {
        bucket_parts.push("big-model".to_string());
    }
    if big_request {
        bucket_parts.push("big-request".to_string());
    }
    let expect = if opts.iter().any(|o| o == "fault=non-utf8-comment@*") {
        if sat { "sat-exact-or-abort".to_string() } else { "unsat-or-abort".to_string() }
    } else if opts.iter().any(|o| o.starts_with("fault=") || o == "mode=no-read") {
        "undecided-or-abort".to_string()
    } else if sat {
        "sat-exact".to_string()
    } else {
        "unsat".to_string()
    };
    ExchangeCase {
        spec: ExtSpec {
            program: msat,
            options: opts,
            clauses,
            reserve: None,
            assumptions: vec![],
        },
        expect,
        model,
        bucket: bucket_parts.join("+"),
    }
}

pub fn run_c16(ctx: &mut Ctx) {
    let n_streams: u64 = ctx.tier.pick(6_000, 100_000);
    let n_exch: u64 = ctx.tier.pick(3_200, 50_000);
    let lim = GenLimits::default();
    let timeout = Duration::from_secs(12);
    for i in 0..n_exch {
        if !ctx.mine(i) {
            continue;
        }
        if ctx.out_of_time() {
            return;
        }
        if ctx.counter("deadlock_witnesses") >= 3 {
            // each further witness costs the whole watchdog and adds nothing
            ctx.count("exchanges_skipped_after_repeated_deadlocks");
            continue;
        }
        ctx.case_begin(&json!({"exchange": i}));
        let mut rng = Rng::from_path(&[ctx.seed, 16, 1, i]);
        let ec = gen_exchange(ctx, &mut rng, i / ctx.nshards as u64);
        crate::report::guarded(ctx, |ctx| judge_exchange(ctx, &ec, timeout));
    }
    let n_api: u64 = ctx.tier.pick(2_400, 40_000);
    for i in 0..n_api {
        if !ctx.mine(i) {
            continue;
        }
        if ctx.out_of_time() {
            return;
        }
        let mut rng = Rng::from_path(&[ctx.seed, 16, 3, i]);
        crate::report::guarded(ctx, |ctx| c16_api_stream(ctx, &mut rng, None));
    }
    for i in 0..n_streams {
        if !ctx.mine(i) {
            continue;
        }
        if ctx.out_of_time() {
            return;
        }
        if i % 32 == 0 {
            ctx.case_begin(&json!({"stream": i}));
        }
        let mut rng = Rng::from_path(&[ctx.seed, 16, 2, i]);
        let fam = *rng.pick(&["er-small", "union", "lattice", "all3", "dup"]);
        let case = gen_case(fam, i, ctx.seed, &lim);
        if case.abs.n > 8 {
            continue;
        }
        crate::report::guarded(ctx, |ctx| c16_real_streams(ctx, &case, &mut rng, None));
    }
}

pub fn replay_c16(ctx: &mut Ctx, case: &Value, detail: &Value) -> Result<(), String> {
    match case.get("sub").and_then(|s| s.as_str()) {
        Some("real-stream") => {
            let c = StaticCase::from_json(&case["case"]).ok_or("bad case")?;
            let mut rng = Rng::new(3);
            c16_real_streams(ctx, &c, &mut rng, Some(detail));
            Ok(())
        }
        Some("api-stream") => {
            let ops: Vec<SOp> = case["ops"].as_array().map(|a| a.iter().filter_map(SOp::from_json).collect()).unwrap_or_default();
            let mut rng = Rng::new(3);
            c16_api_stream(ctx, &mut rng, Some(ops));
            Ok(())
        }
        Some("exchange") => {
            let mut spec = ExtSpec::from_json(&case["spec"]);
            if spec.is_none() {
                // clauses elided: regenerate a unique-model instance of the recorded size
                let n = case["n_vars"].as_u64().unwrap_or(10) as usize;
                let k = case["n_clauses"].as_u64().unwrap_or(10) as usize;
                let mut rng = Rng::new(11);
                let (cl, _) = unique_model_cnf(&mut rng, n, k.saturating_sub(n));
                let mut v = case["spec"].clone();
                v["clauses"] = json!(cl);
                spec = ExtSpec::from_json(&v);
            }
            let mut spec = spec.ok_or("bad spec")?;
            if spec.program.ends_with("/msat") {
                spec.program = msat_path(ctx);
            }
            let expect = case["expect"].as_str().unwrap_or("").to_string();
            // the exact model is not stored: exactness is re-derived from the unit clauses
            let mut model = vec![false; case["n_vars"].as_u64().unwrap_or(0) as usize];
            for c in spec.clauses.iter() {
                if c.len() == 1 && c[0].unsigned_abs() <= model.len() && c[0] > 0 {
                    model[c[0].unsigned_abs() - 1] = true;
                }
            }
            let ec = ExchangeCase {
                spec,
                expect,
                model,
                bucket: case["bucket"].as_str().unwrap_or("replay").to_string(),
            };
            judge_exchange(ctx, &ec, Duration::from_secs(20));
            Ok(())
        }
        _ => Err("unknown C16 sub-check".to_string()),
    }
}

// =============================================================================================
// C17
// =============================================================================================

fn answer_json(r: &QOut) -> Value {
    r.to_json()
}

/// In-process fault enumeration: `Unknown` injected at every SAT-call position of a static query.
fn c17_static<T: HLabel>(ctx: &mut Ctx, case: &StaticCase, built: &Built<T>, rng: &mut Rng, focus: Option<&Value>) {
    let cost = exp_cost_built(built);
    let ts: Vec<Target> = targets().into_iter().filter(|t| t.ty != crate::solvers::SolverType::Grounded).collect();
    for t in ts.iter() {
        if focus.is_none() && !rng.pct(50) {
            continue;
        }
        if let Some(f) = focus {
            if f.get("problem").and_then(|p| p.as_str()) != Some(&t.problem()) {
                continue;
            }
        }
        let encs: Vec<Enc> = t.ty.encoders(t.kind).iter().copied().filter(|e| !(*e == Enc::ExpCo && cost > EXP_COST_LIMIT)).collect();
        let enc = match focus.and_then(|f| f.get("encoder")).and_then(|e| e.as_str()).and_then(Enc::from_name) {
            Some(e) => e,
            None => encs[rng.below(encs.len())],
        };
        if case.abs.n == 0 && t.kind != QKind::SE {
            continue;
        }
        let q = match focus.and_then(|f| f.get("query")) {
            Some(qj) => Query {
                kind: t.kind,
                args: qj["args"].as_array().map(|a| a.iter().filter_map(|x| x.as_u64().map(|x| x as usize)).collect()).unwrap_or_default(),
                cert: qj["cert"].as_bool().unwrap_or(false),
            },
            None => Query {
                kind: t.kind,
                args: if t.kind == QKind::SE {
                    vec![]
                } else if case.abs.n >= 2 && rng.pct(35) {
                    // a list of 2-3 arguments (often in different components: more SAT-call sites are reached)
                    ctx.count("injected/queries-over-argument-lists");
                    (0..2 + rng.below(2)).map(|_| rng.below(case.abs.n)).collect()
                } else {
                    vec![rng.below(case.abs.n)]
                },
                cert: rng.pct(50),
            },
        };
        // fault-free run: learn k
        let h0 = monitor::new_handle();
        h0.borrow_mut().cap = Some(20_000);
        let r0 = ask_fresh(built, t.ty, enc, monitor::monitored_factory(Backend::Cadical, h0.clone()), &q);
        let k = h0.borrow().n_calls;
        if r0.is_err() || k == 0 {
            continue;
        }
        let positions: Vec<usize> = if k <= 60 {
            (1..=k).collect()
        } else {
            let mut v: Vec<usize> = vec![1, 2, k - 1, k];
            while v.len() < 60 {
                let j = rng.range(1, k);
                if !v.contains(&j) {
                    v.push(j);
                }
            }
            v
        };
        for j in positions {
            ctx.eval();
            let h = monitor::new_handle();
            // one position in three: the backend stays dead (every later call is undecided too)
            let persistent = j % 3 == 0;
            {
                let mut s = h.borrow_mut();
                s.cap = Some(10 * k + 64);
                if persistent {
                    s.inject_unknown_from = Some(j);
                } else {
                    s.inject_unknown_at = Some(j);
                }
            }
            let r = ask_fresh(built, t.ty, enc, monitor::monitored_factory(Backend::Cadical, h.clone()), &q);
            if !h.borrow().injected {
                ctx.inconclusive("injection-position-not-reached");
                continue;
            }
            ctx.count(&format!("injected/in-process/{}", t.problem()));
            if persistent {
                ctx.count("injected/in-process-persistent");
            }
            if h.borrow().cap_hit {
                // not aborted: the query went on calling the backend (10 k + 64 calls) after the failure
                ctx.violation(
                    &format!("C17/query-not-aborted-after-unknown/{}/{}", t.problem(), enc.name()),
                    json!({"problem": t.problem(), "encoder": enc.name(), "query": q.to_json(), "fault_at_call": j, "persistent": persistent,
                           "calls_without_fault": k, "calls_made": h.borrow().n_calls}),
                    &json!({"sub": "static-unknown", "case": case.to_json()}),
                );
                return;
            }
            if j >= 2 && k >= 2 {
                let js = j.to_string();
                let qs = format!("{:?}{}", q.args, q.cert);
                ctx.nontrivial(crate::gen::case_hash(&case.abs, &[&t.problem(), enc.name(), &js, &qs]));
            }
            ctx.maximum("max_calls_per_query_k", k as u64);
            if let Ok(out) = r {
                ctx.violation(
                    &format!("C17/unknown-became-answer/{}/{}", t.problem(), enc.name()),
                    json!({"problem": t.problem(), "encoder": enc.name(), "query": q.to_json(), "fault_at_call": j, "calls_without_fault": k,
                           "returned": answer_json(&out)}),
                    &json!({"sub": "static-unknown", "case": case.to_json()}),
                );
                return;
            }
        }
        ctx.sample(&format!("static-unknown/{}", t.problem()), || {
            json!({"case": case.short(), "problem": t.problem(), "encoder": enc.name(), "query": q.to_json(), "positions_covered": k})
        });
    }
}

/// External backend: msat misbehaves at invocation j.
fn c17_external<T: HLabel>(ctx: &mut Ctx, case: &StaticCase, built: &Built<T>, rng: &mut Rng, focus: Option<&Value>) {
    let cost = exp_cost_built(built);
    let ts: Vec<Target> = targets().into_iter().filter(|t| t.ty != crate::solvers::SolverType::Grounded).collect();
    let state = ctx.out_dir.join(format!("msat-state-{}", ctx.shard));
    let _ = std::fs::create_dir_all(&state);
    let n_targets = if focus.is_some() { ts.len() } else { 2 };
    for ti in 0..n_targets {
        let t = if focus.is_some() { &ts[ti] } else { &ts[rng.below(ts.len())] };
        if let Some(f) = focus {
            if f.get("problem").and_then(|p| p.as_str()) != Some(&t.problem()) {
                continue;
            }
        }
        let encs: Vec<Enc> = t.ty.encoders(t.kind).iter().copied().filter(|e| !(*e == Enc::ExpCo && cost > EXP_COST_LIMIT)).collect();
        let enc = match focus.and_then(|f| f.get("encoder")).and_then(|e| e.as_str()).and_then(Enc::from_name) {
            Some(e) => e,
            None => encs[rng.below(encs.len())],
        };
        if case.abs.n == 0 && t.kind != QKind::SE {
            continue;
        }
        let q = match focus.and_then(|f| f.get("query")) {
            Some(qj) => Query {
                kind: t.kind,
                args: qj["args"].as_array().map(|a| a.iter().filter_map(|x| x.as_u64().map(|x| x as usize)).collect()).unwrap_or_default(),
                cert: qj["cert"].as_bool().unwrap_or(false),
            },
            None => Query {
                kind: t.kind,
                args: if t.kind == QKind::SE { vec![] } else { vec![rng.below(case.abs.n)] },
                cert: rng.pct(50),
            },
        };
        // learn k with the fault-free external backend
        let reset = |state: &std::path::Path| {
            let _ = std::fs::write(state.join("counter"), b"0");
        };
        reset(&state);
        let st = format!("state={}", state.to_string_lossy());
        let honest = Backend::External(msat_path(ctx), vec![st.clone()]);
        let r0 = ask_fresh(built, t.ty, enc, monitor::plain_factory(honest), &q);
        let k: usize = std::fs::read_to_string(state.join("counter")).ok().and_then(|s| s.trim().parse().ok()).unwrap_or(0);
        if r0.is_err() || k == 0 {
            // (an Err here on the unchanged tree would be reported by C06/C16, not here)
            continue;
        }
        let kinds: Vec<&str> = match focus.and_then(|f| f.get("fault_kind")).and_then(|x| x.as_str()) {
            Some(fk) => REPLY_FAULTS.iter().copied().filter(|x| *x == fk).collect(),
            None => {
                let mut v = REPLY_FAULTS.to_vec();
                rng.shuffle(&mut v);
                v.truncate(3);
                v
            }
        };
        for kind in kinds {
            let js: Vec<usize> = if k <= 4 { (1..=k).collect() } else { vec![1, 2, rng.range(2, k), k] };
            for j in js {
                ctx.eval();
                reset(&state);
                let mut fopts = vec![st.clone(), format!("fault={}@{}", kind, j), format!("cut={}", rng.below(1000))];
                if rng.pct(50) {
                    // the process exit status follows the competition convention (10 / 20) or is a fixed value
                    fopts.push(format!("exit={}", rng.pick(&["conv", "20", "10", "1"])));
                    ctx.count("injected/external/with-solver-like-exit-status");
                }
                let faulty = Backend::External(msat_path(ctx), fopts);
                let r = ask_fresh(built, t.ty, enc, monitor::plain_factory(faulty), &q);
                let reached: usize = std::fs::read_to_string(state.join("counter")).ok().and_then(|s| s.trim().parse().ok()).unwrap_or(0);
                if reached < j {
                    ctx.inconclusive("injection-position-not-reached");
                    continue;
                }
                ctx.count(&format!("injected/external/{}", kind));
                if j >= 2 {
                    let s = format!("{}@{}{:?}", kind, j, q.args);
                    ctx.nontrivial(crate::gen::case_hash(&case.abs, &[&t.problem(), enc.name(), &s]));
                }
                if let Ok(out) = r {
                    ctx.violation(
                        &format!("C17/backend-failure-became-answer/{}/{}", kind, t.problem()),
                        json!({"problem": t.problem(), "encoder": enc.name(), "query": q.to_json(), "fault_kind": kind, "fault_at_call": j,
                               "calls_without_fault": k, "returned": answer_json(&out)}),
                        &json!({"sub": "static-external", "case": case.to_json()}),
                    );
                    return;
                }
            }
        }
    }
}

/// Dynamic solvers: Unknown injected at the j-th SAT call of a short history.
fn c17_dynamic(ctx: &mut Ctx, rng: &mut Rng, replay: Option<&HistCase>) {
    let kinds = [
        DynKind::Co,
        DynKind::St,
        DynKind::Pr,
        DynKind::CoAtt(1.5),
        DynKind::StAtt(2.0),
    ];
    let case = match replay {
        Some(c) => c.clone(),
        None => {
            let kind = kinds[rng.below(kinds.len())].clone();
            let shape = dynamic::SHAPES[rng.below(dynamic::SHAPES.len())];
            dynamic::gen_history(rng, &kind, shape, 10, 0)
        }
    };
    // fault-free run to learn the number of calls
    let run = |inject: Option<usize>| -> (usize, bool, Option<Value>) {
        let h = monitor::new_handle();
        {
            let mut s = h.borrow_mut();
            s.inject_unknown_at = inject;
            s.cap = Some(50_000);
        }
        let mut solver = match dynamic::make_solver(&case.kind, h.clone(), Backend::Cadical) {
            Ok(s) => s,
            Err(_) => return (0, false, None),
        };
        let mut answered_after_injection: Option<Value> = None;
        for (step, op) in case.ops.iter().enumerate() {
            match op {
                HOp::Upd(o) => {
                    if solver.update(o).is_err() {
                        break;
                    }
                }
                HOp::Query(c, l, cert) => {
                    let supported = if *c { case.kind.dc_sem().is_some() } else { case.kind.ds_sem().is_some() };
                    if !supported {
                        continue;
                    }
                    let before = h.borrow().injected;
                    let r = solver.query(*c, *l, *cert);
                    let after = h.borrow().injected;
                    if !before && after {
                        // the injection happened inside this query: it must have unwound
                        if let Ok((st, ce)) = &r {
                            answered_after_injection = Some(json!({"step": step, "query": op.to_json(), "status": st, "certificate": ce}));
                        }
                        break;
                    }
                    if r.is_err() {
                        break;
                    }
                }
            }
        }
        let n = h.borrow().n_calls;
        let inj = h.borrow().injected;
        (n, inj, answered_after_injection)
    };
    let (k, _, _) = run(None);
    if k == 0 {
        return;
    }
    let positions: Vec<usize> = if k <= 40 { (1..=k).collect() } else { (0..40).map(|_| rng.range(1, k)).collect() };
    for j in positions {
        ctx.eval();
        let (_, injected, answered) = run(Some(j));
        if !injected {
            ctx.inconclusive("injection-position-not-reached");
            continue;
        }
        ctx.count(&format!("injected/dynamic/{}", case.kind.name()));
        if j >= 2 {
            let mut h = Hasher64::new();
            h.str(&serde_json::to_string(&case.to_json()).unwrap());
            h.usize(j);
            ctx.nontrivial(h.finish());
        }
        if let Some(a) = answered {
            ctx.violation(
                &format!("C17/unknown-became-answer/dynamic/{}", case.kind.name()),
                json!({"fault_at_call": j, "calls_without_fault": k, "returned": a}),
                &json!({"sub": "dynamic-unknown", "history": case.to_json()}),
            );
            return;
        }
    }
}

fn answer_shaped(line: &str) -> bool {
    // ^(YES|NO|w( \S+)*|\[[^\]]*\])$
    if line == "YES" || line == "NO" || line == "w" {
        return true;
    }
    if let Some(rest) = line.strip_prefix("w ") {
        return !rest.is_empty();
    }
    line.starts_with('[') && line.ends_with(']')
}

/// Command-line path: the binary must exit non-zero without an answer on stdout.
fn c17_cli(ctx: &mut Ctx, case: &StaticCase, rng: &mut Rng, focus: Option<&Value>) {
    // file in ICCMA format (the graph itself, indices 1..n)
    if case.abs.n == 0 {
        return;
    }
    let dir = ctx.out_dir.join(format!("cli-{}", ctx.shard));
    let _ = std::fs::create_dir_all(&dir);
    let file = dir.join("instance.af");
    let mut text = format!("p af {}\n", case.abs.n);
    for (a, b) in case.abs.att.iter() {
        text.push_str(&format!("{} {}\n", a + 1, b + 1));
    }
    // one instance file in seven is large (1-3 MiB: the same framework between comment lines)
    if focus.and_then(|f| f.get("large_instance_file")).and_then(|x| x.as_bool()).unwrap_or_else(|| rng.pct(14)) {
        let target = (1usize << 20) + rng.below(2 << 20);
        let mut big = String::with_capacity(target + text.len() + 128);
        let mut lines = text.lines();
        big.push_str(lines.next().unwrap_or(""));
        big.push('\n');
        let line = format!("# {}\n", "padding ".repeat(15));
        while big.len() < target / 2 {
            big.push_str(&line);
        }
        for l in lines {
            big.push_str(l);
            big.push('\n');
        }
        while big.len() < target {
            big.push_str(&line);
        }
        text = big;
        ctx.count("injected/cli/instance-file-above-1MiB");
    }
    let large_file = text.len() >= (1 << 20);
    if std::fs::write(&file, &text).is_err() {
        ctx.harness_error("cannot write instance file");
        return;
    }
    let state = dir.join("state");
    let _ = std::fs::create_dir_all(&state);
    let problems = ["DC-CO", "DC-ST", "DS-ST", "SE-ST", "DS-PR", "SE-PR", "DC-SST", "DS-SST", "SE-SST", "DC-STG", "DS-STG", "SE-STG", "DC-ID", "SE-ID", "DS-ID", "DC-PR"];
    let prob = focus.and_then(|f| f.get("problem")).and_then(|p| p.as_str()).map(|s| s.to_string()).unwrap_or_else(|| rng.pick(&problems).to_string());
    let arg = focus.and_then(|f| f.get("argument")).and_then(|a| a.as_u64()).map(|a| a as usize).unwrap_or_else(|| 1 + rng.below(case.abs.n));
    let bin_name = if focus.and_then(|f| f.get("binary")).and_then(|b| b.as_str()).map(|b| b == "crustabri_iccma23").unwrap_or_else(|| rng.pct(0)) { "crustabri_iccma23" } else { "crustabri" };
    let msat = msat_path(ctx);
    let bin_path = ctx.repo_bin_dir.join(bin_name);
    let run = |fault: Option<(String, usize)>| -> Option<(std::process::Output, usize)> {
        let _ = std::fs::write(state.join("counter"), b"0");
        let mut cmd = std::process::Command::new(&bin_path);
        cmd.env("RUST_BACKTRACE", "0");
        cmd.args(["solve", "-f", file.to_str().unwrap(), "-p", &prob, "--logging-level", "off"]);
        if !prob.starts_with("SE") {
            cmd.args(["-a", &arg.to_string()]);
        }
        if rng_cert(&prob, arg) {
            cmd.arg("-c");
        }
        cmd.args(["--external-sat-solver", &msat]);
        cmd.args(["--external-sat-solver-opt", &format!("state={}", state.to_string_lossy())]);
        if let Some((k, j)) = &fault {
            cmd.args(["--external-sat-solver-opt", &format!("fault={}@{}", k, j)]);
            cmd.args(["--external-sat-solver-opt", &format!("cut={}", (j * 137 + k.len() * 61) % 1000)]);
            match (j + k.len()) % 4 {
                0 => {
                    cmd.args(["--external-sat-solver-opt", "exit=conv"]);
                }
                1 => {
                    cmd.args(["--external-sat-solver-opt", "exit=20"]);
                }
                _ => {}
            }
        }
        let out = cmd.output().ok()?;
        let reached: usize = std::fs::read_to_string(state.join("counter")).ok().and_then(|s| s.trim().parse().ok()).unwrap_or(0);
        Some((out, reached))
    };
    fn rng_cert(prob: &str, arg: usize) -> bool {
        (prob.len() + arg) % 2 == 0
    }
    let (o0, k) = match run(None) {
        Some(x) => x,
        None => {
            ctx.harness_error("cannot run crustabri binary");
            return;
        }
    };
    if !o0.status.success() || k == 0 {
        return;
    }
    let kind = focus.and_then(|f| f.get("fault_kind")).and_then(|x| x.as_str()).map(|s| s.to_string()).unwrap_or_else(|| rng.pick(&REPLY_FAULTS).to_string());
    let js: Vec<usize> = if k <= 3 { (1..=k).collect() } else { vec![1, rng.range(2, k), k] };
    for j in js {
        ctx.eval();
        let (o, reached) = match run(Some((kind.clone(), j))) {
            Some(x) => x,
            None => return,
        };
        if reached < j {
            ctx.inconclusive("injection-position-not-reached");
            continue;
        }
        ctx.count(&format!("injected/cli/{}", kind));
        let stdout = String::from_utf8_lossy(&o.stdout).to_string();
        let answered = stdout.lines().any(answer_shaped);
        if o.status.success() || answered {
            ctx.violation(
                &format!("C17/cli-answered-after-backend-failure/{}/{}", kind, prob),
                json!({"problem": prob, "argument": arg, "binary": bin_name, "fault_kind": kind, "fault_at_call": j, "calls_without_fault": k,
                       "large_instance_file": large_file,
                       "exit_status": o.status.code(), "stdout": stdout.chars().take(300).collect::<String>()}),
                &json!({"sub": "cli", "case": case.to_json()}),
            );
            return;
        }
    }
}

pub fn run_c17(ctx: &mut Ctx) {
    let n: u64 = ctx.tier.pick(14_000, 250_000);
    let lim = GenLimits::default();
    for i in 0..n {
        if !ctx.mine(i) {
            continue;
        }
        if ctx.out_of_time() {
            return;
        }
        if i % 32 == 0 {
            ctx.case_begin(&json!({"i": i}));
        }
        let mut rng = Rng::from_path(&[ctx.seed, 17, i]);
        if i % 97 == 5 {
            // a connected component of 64-72 arguments that has stable extensions (an even ring with a few
            // pendant arguments): fast paths that only exist above a size threshold, failure at each of
            // the few calls of a range query
            let len = *rng.pick(&[64usize, 66, 70]);
            let mut att: Vec<(usize, usize)> = (0..len).map(|k| (k, (k + 1) % len)).collect();
            let mut n = len;
            for _ in 0..rng.range(0, 2) {
                att.push((n, rng.below(len)));
                n += 1;
            }
            let g = crate::refsem::Abs::new(n, att);
            let text = {
                let mut t = format!("p af {}\n", n);
                for (a, b) in g.att.iter() {
                    t.push_str(&format!("{} {}\n", a + 1, b + 1));
                }
                t
            };
            let case = crate::cases::StaticCase { family: "big-ring".to_string(), abs: g, pres: crate::present::Pres::Iccma { text } };
            ctx.count("cases/component-of-64-or-more-arguments-with-stable-extensions");
            for _ in 0..2 {
                let a = rng.below(n);
                for prob in ["DC-SST", "DS-SST", "DC-STG", "DS-STG", "DS-PR"] {
                    let enc = if prob.ends_with("STG") { *rng.pick(&["aux_var-cf", "exp-cf"]) } else { *rng.pick(&["aux_var-co", "exp-co", "hybrid"]) };
                    let focus = json!({"problem": prob, "encoder": enc, "query": {"args": [a], "cert": rng.pct(50)}});
                    crate::report::guarded(ctx, |ctx| {
                        if let Ok(b) = build_usize(&case.pres) {
                            c17_static(ctx, &case, &b, &mut rng, Some(&focus));
                        }
                    });
                }
            }
            continue;
        }
        // "long-search": shapes on which the second-level procedures need many calls (fault positions deep
        // inside a search, beyond any warm-up a look-ahead or a cache may have)
        let fam = *rng.pick(&["er", "lattice", "union", "all3", "long-search"]);
        let case = gen_case(fam, i, ctx.seed, &lim);
        if case.abs.n > 9 && fam != "long-search" {
            continue;
        }
        // (the long-search shapes only go to the in-process fault enumeration)
        let which = if fam == "long-search" { 0 } else { rng.weighted(&[10, 2, 4, 1]) };
        if fam == "long-search" {
            ctx.count("cases/long-search-shapes");
            if rng.pct(20) {
                // every argument, certificate-less skeptical queries of the enumerating procedures: every
                // call position of every search of the framework gets its failure
                ctx.count("cases/long-search-shapes-with-every-argument-queried");
                for a in 0..case.abs.n {
                    for prob in ["DS-PR", "DS-ID"] {
                        let enc = *rng.pick(&["aux_var-co", "exp-co", "hybrid"]);
                        let focus = json!({"problem": prob, "encoder": enc, "query": {"args": [a], "cert": false}});
                        crate::report::guarded(ctx, |ctx| {
                            if case.pres.is_usize() {
                                if let Ok(b) = build_usize(&case.pres) {
                                    c17_static(ctx, &case, &b, &mut rng, Some(&focus));
                                }
                            } else if let Ok(b) = build_string(&case.pres) {
                                c17_static(ctx, &case, &b, &mut rng, Some(&focus));
                            }
                        });
                    }
                }
                continue;
            }
        }
        crate::report::guarded(ctx, |ctx| match which {
            0 | 1 => {
                if case.pres.is_usize() {
                    if let Ok(b) = build_usize(&case.pres) {
                        if which == 0 {
                            c17_static(ctx, &case, &b, &mut rng, None);
                        } else if case.abs.n <= 6 {
                            c17_external(ctx, &case, &b, &mut rng, None);
                        }
                    }
                } else if let Ok(b) = build_string(&case.pres) {
                    if which == 0 {
                        c17_static(ctx, &case, &b, &mut rng, None);
                    } else if case.abs.n <= 6 {
                        c17_external(ctx, &case, &b, &mut rng, None);
                    }
                }
            }
            2 => c17_dynamic(ctx, &mut rng, None),
            _ => {
                if case.abs.n <= 6 {
                    c17_cli(ctx, &case, &mut rng, None);
                }
            }
        });
    }
}

pub fn replay_c17(ctx: &mut Ctx, case: &Value, detail: &Value) -> Result<(), String> {
    let mut rng = Rng::new(17);
    match case.get("sub").and_then(|s| s.as_str()) {
        Some("static-unknown") | Some("static-external") => {
            let c = StaticCase::from_json(&case["case"]).ok_or("bad case")?;
            let ext = case["sub"] == "static-external";
            if c.pres.is_usize() {
                let b = build_usize(&c.pres)?;
                if ext {
                    c17_external(ctx, &c, &b, &mut rng, Some(detail));
                } else {
                    c17_static(ctx, &c, &b, &mut rng, Some(detail));
                }
            } else {
                let b = build_string(&c.pres)?;
                if ext {
                    c17_external(ctx, &c, &b, &mut rng, Some(detail));
                } else {
                    c17_static(ctx, &c, &b, &mut rng, Some(detail));
                }
            }
            Ok(())
        }
        Some("dynamic-unknown") => {
            let h = HistCase::from_json(&case["history"]).ok_or("bad history")?;
            c17_dynamic(ctx, &mut rng, Some(&h));
            Ok(())
        }
        Some("cli") => {
            let c = StaticCase::from_json(&case["case"]).ok_or("bad case")?;
            c17_cli(ctx, &c, &mut rng, Some(detail));
            Ok(())
        }
        _ => Err("unknown C17 sub-check".to_string()),
    }
}

#[allow(dead_code)]
fn unused(_: &dyn SatSolver, _: Tier, _: fn(&[Vec<isize>], &[bool]) -> bool) {
    let _ = is_model;
}
