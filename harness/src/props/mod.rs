//! One module per group of properties.

pub mod bounds;
pub mod cli;
pub mod dynamic;
pub mod encodings;
pub mod independence;
pub mod metamorphic;
pub mod sat;
pub mod static_eval;
pub mod store_io;

use crate::report::Ctx;
use serde_json::Value;

/// Runs the workload of `prop` on this shard.  Returns false for an unknown property.
pub fn run(ctx: &mut Ctx, prop: &str) -> bool {
    match prop {
        "C01" => static_eval::run(ctx, static_eval::Prop::C01),
        "C02" => static_eval::run(ctx, static_eval::Prop::C02),
        "C03" => static_eval::run(ctx, static_eval::Prop::C03),
        "C04" => static_eval::run(ctx, static_eval::Prop::C04),
        "C07" => static_eval::run(ctx, static_eval::Prop::C07),
        "C08" | "C09" => dynamic::run(ctx, prop),
        "C05" => cli::run_c05(ctx),
        "C06" => independence::run(ctx),
        "C10" => encodings::run(ctx),
        "C11" => metamorphic::run(ctx),
        "C18" => bounds::run_c18(ctx),
        "C19" => bounds::run_c19(ctx),
        "C15" => sat::run_c15(ctx),
        "C16" => sat::run_c16(ctx),
        "C17" => sat::run_c17(ctx),
        "C12" => store_io::run_c12(ctx),
        "C13" => store_io::run_c13(ctx),
        "C14" => store_io::run_c14(ctx),
        _ => return false,
    }
    true
}

pub fn replay(ctx: &mut Ctx, prop: &str, case: &Value, detail: &Value, signature: &str) -> Result<(), String> {
    match prop {
        "C01" => static_eval::replay(ctx, static_eval::Prop::C01, case, detail),
        "C02" => static_eval::replay(ctx, static_eval::Prop::C02, case, detail),
        "C03" => static_eval::replay(ctx, static_eval::Prop::C03, case, detail),
        "C04" => static_eval::replay(ctx, static_eval::Prop::C04, case, detail),
        "C07" => static_eval::replay(ctx, static_eval::Prop::C07, case, detail),
        "C08" | "C09" => dynamic::replay(ctx, prop, case),
        "C05" => cli::replay_c05(ctx, case),
        "C06" => independence::replay(ctx, case, detail, signature),
        "C10" => encodings::replay(ctx, case, detail),
        "C11" => metamorphic::replay(ctx, case),
        "C18" => bounds::replay_c18(ctx, case, detail),
        "C19" => bounds::replay_c19(ctx, case),
        "C15" => sat::replay_c15(ctx, case),
        "C16" => sat::replay_c16(ctx, case, detail),
        "C17" => sat::replay_c17(ctx, case, detail),
        "C12" => store_io::replay_c12(ctx, case),
        "C13" => store_io::replay_c13(ctx, case),
        "C14" => store_io::replay_c14(ctx, case),
        _ => Err(format!("unknown property {}", prop)),
    }
}

/// Replays the committed regression inputs of `prop` (shard 0 only): every input that ever
/// exposed a defect stays in the quick tier whatever the seed.
pub fn run_corpus(ctx: &mut Ctx, prop: &str) {
    if ctx.shard != 0 {
        return;
    }
    let dir = ctx.corpus_dir.join(prop);
    let mut files: Vec<std::path::PathBuf> = match std::fs::read_dir(&dir) {
        Ok(rd) => rd.filter_map(|e| e.ok().map(|e| e.path())).collect(),
        Err(_) => return,
    };
    files.sort();
    for f in files {
        if f.extension().map(|e| e != "json").unwrap_or(true) {
            continue;
        }
        let text = match std::fs::read_to_string(&f) {
            Ok(t) => t,
            Err(e) => {
                ctx.harness_error(&format!("corpus file {:?}: {}", f, e));
                continue;
            }
        };
        let v: Value = match serde_json::from_str(&text) {
            Ok(v) => v,
            Err(e) => {
                ctx.harness_error(&format!("corpus file {:?}: {}", f, e));
                continue;
            }
        };
        ctx.count("corpus_cases_replayed");
        if let Err(e) = replay(ctx, prop, &v["case"], &v["detail"], v["signature"].as_str().unwrap_or("")) {
            ctx.harness_error(&format!("corpus file {:?}: {}", f, e));
        }
    }
}
