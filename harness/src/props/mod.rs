//! One module per group of properties.

pub mod static_eval;

use crate::report::Ctx;
use serde_json::Value;

/// Runs the workload of `prop` on this shard.  Returns false for an unknown property.
pub fn run(ctx: &mut Ctx, prop: &str) -> bool {
    match prop {
        "C01" => static_eval::run(ctx, static_eval::Prop::C01),
        "C02" => static_eval::run(ctx, static_eval::Prop::C02),
        "C03" => static_eval::run(ctx, static_eval::Prop::C03),
        "C04" => static_eval::run(ctx, static_eval::Prop::C04),
        "C07" => static_eval::run(ctx, static_eval::Prop::C07),
        _ => return false,
    }
    true
}

pub fn replay(ctx: &mut Ctx, prop: &str, case: &Value, detail: &Value) -> Result<(), String> {
    match prop {
        "C01" => static_eval::replay(ctx, static_eval::Prop::C01, case, detail),
        "C02" => static_eval::replay(ctx, static_eval::Prop::C02, case, detail),
        "C03" => static_eval::replay(ctx, static_eval::Prop::C03, case, detail),
        "C04" => static_eval::replay(ctx, static_eval::Prop::C04, case, detail),
        "C07" => static_eval::replay(ctx, static_eval::Prop::C07, case, detail),
        _ => Err(format!("unknown property {}", prop)),
    }
}
