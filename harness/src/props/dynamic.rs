//! Checks C08 and C09: dynamic solvers against a shadow set model + brute-force semantics.

use crate::monitor::{self, Backend, MonHandle, Verdict};
use crate::present::Op;
use crate::refsem::{Abs, RefSem, Sem};
use crate::report::{catch, Ctx, PanicInfo, Tier};
use crate::rng::{Hasher64, Rng};
use crustabri::aa::AAFramework;
use crustabri::dynamics::assumptions_on_attacks::{
    DynamicCompleteSemanticsSolverAttacks, DynamicStableSemanticsSolverAttacks,
};
use crustabri::dynamics::{
    DummyDynamicConstraintsEncoder, DynamicCompleteSemanticsSolver,
    DynamicPreferredSemanticsSolver, DynamicSolver, DynamicStableSemanticsSolver,
};
use crustabri::solvers::{
    CompleteSemanticsSolver, CredulousAcceptanceComputer, GroundedSemanticsSolver,
    IdealSemanticsSolver, PreferredSemanticsSolver, SemiStableSemanticsSolver,
    SkepticalAcceptanceComputer, StableSemanticsSolver, StageSemanticsSolver,
};
use serde_json::{json, Value};
use std::collections::{BTreeMap, BTreeSet};
use std::rc::Rc;

#[derive(Clone, Debug, PartialEq)]
pub enum DynKind {
    Co,
    St,
    Pr,
    CoAtt(f64),
    StAtt(f64),
    /// Recompute-from-scratch wrapper around the static solvers of a semantics.
    Dummy(Sem),
}

impl DynKind {
    pub fn name(&self) -> String {
        match self {
            DynKind::Co => "DynamicComplete".to_string(),
            DynKind::St => "DynamicStable".to_string(),
            DynKind::Pr => "DynamicPreferred".to_string(),
            DynKind::CoAtt(_) => "DynamicCompleteAttacks".to_string(),
            DynKind::StAtt(_) => "DynamicStableAttacks".to_string(),
            DynKind::Dummy(s) => format!("Dummy-{}", s.name()),
        }
    }
    pub fn to_json(&self) -> Value {
        match self {
            DynKind::CoAtt(f) => json!({"solver": self.name(), "arg_factor": f}),
            DynKind::StAtt(f) => json!({"solver": self.name(), "arg_factor": f}),
            _ => json!({"solver": self.name()}),
        }
    }
    pub fn from_json(v: &Value) -> Option<DynKind> {
        let name = v.get("solver")?.as_str()?;
        let f = v.get("arg_factor").and_then(|x| x.as_f64());
        match name {
            "DynamicComplete" => Some(DynKind::Co),
            "DynamicStable" => Some(DynKind::St),
            "DynamicPreferred" => Some(DynKind::Pr),
            "DynamicCompleteAttacks" => Some(DynKind::CoAtt(f?)),
            "DynamicStableAttacks" => Some(DynKind::StAtt(f?)),
            _ => {
                let s = name.strip_prefix("Dummy-")?;
                Some(DynKind::Dummy(Sem::from_name(s)?))
            }
        }
    }
    /// Semantics deciding credulous / skeptical answers (None = not supported).
    pub fn dc_sem(&self) -> Option<Sem> {
        match self {
            DynKind::Co | DynKind::CoAtt(_) => Some(Sem::CO),
            DynKind::St | DynKind::StAtt(_) => Some(Sem::ST),
            DynKind::Pr => None,
            DynKind::Dummy(Sem::PR) => Some(Sem::CO),
            DynKind::Dummy(s) => Some(*s),
        }
    }
    pub fn ds_sem(&self) -> Option<Sem> {
        match self {
            DynKind::Co | DynKind::CoAtt(_) => None,
            DynKind::St | DynKind::StAtt(_) => Some(Sem::ST),
            DynKind::Pr => Some(Sem::PR),
            DynKind::Dummy(Sem::CO) => Some(Sem::GR),
            DynKind::Dummy(s) => Some(*s),
        }
    }
}

pub const FACTORS: [f64; 6] = [1.0, 1.25, 1.5, 2.0, 3.0, 7.3];

#[derive(Clone, Debug, PartialEq)]
pub enum HOp {
    Upd(Op<usize>),
    /// (is_credulous, label, with_certificate)
    Query(bool, usize, bool),
}

impl HOp {
    pub fn to_json(&self) -> Value {
        match self {
            HOp::Upd(o) => o.to_json(),
            HOp::Query(c, l, cert) => json!([if *c { "dc" } else { "ds" }, l, cert]),
        }
    }
    pub fn from_json(v: &Value) -> Option<HOp> {
        let a = v.as_array()?;
        match a.first()?.as_str()? {
            "dc" => Some(HOp::Query(
                true,
                a.get(1)?.as_u64()? as usize,
                a.get(2)?.as_bool()?,
            )),
            "ds" => Some(HOp::Query(
                false,
                a.get(1)?.as_u64()? as usize,
                a.get(2)?.as_bool()?,
            )),
            _ => Some(HOp::Upd(Op::<usize>::from_json(v)?)),
        }
    }
}

#[derive(Clone, Debug)]
pub struct HistCase {
    pub kind: DynKind,
    pub shape: String,
    pub ops: Vec<HOp>,
    /// How the solver object is built: "factory" (monitored SAT factory, the default), "new",
    /// "default" (the `Default` impl) or "arg-factor" (`new_with_arg_factor`): the public
    /// constructors that take no factory, so the SAT boundary is not observed for them.
    pub ctor: String,
}

impl HistCase {
    pub fn to_json(&self) -> Value {
        let mut j = json!({"config": self.kind.to_json(), "shape": self.shape,
               "history": self.ops.iter().map(|o| o.to_json()).collect::<Vec<_>>()});
        if self.ctor != "factory" {
            j["constructor"] = json!(self.ctor);
        }
        j
    }
    pub fn from_json(v: &Value) -> Option<HistCase> {
        Some(HistCase {
            kind: DynKind::from_json(v.get("config")?)?,
            shape: v.get("shape")?.as_str()?.to_string(),
            ops: v
                .get("history")?
                .as_array()?
                .iter()
                .map(HOp::from_json)
                .collect::<Option<Vec<_>>>()?,
            ctor: v.get("constructor").and_then(|c| c.as_str()).unwrap_or("factory").to_string(),
        })
    }
}

// ---------------------------------------------------------------------------------------------
// shadow model
// ---------------------------------------------------------------------------------------------

#[derive(Clone, Debug, Default)]
pub struct Shadow {
    pub live: BTreeSet<usize>,
    pub att: BTreeSet<(usize, usize)>,
    pub ever: BTreeSet<usize>,
}

#[derive(Clone, Copy, Debug, PartialEq, Eq)]
pub enum OpClass {
    Valid,
    Redundant,
    Invalid,
}

impl Shadow {
    pub fn classify(&self, op: &Op<usize>) -> OpClass {
        match op {
            Op::AddArg(l) => {
                if self.live.contains(l) {
                    OpClass::Redundant
                } else {
                    OpClass::Valid
                }
            }
            Op::DelArg(l) => {
                if self.live.contains(l) {
                    OpClass::Valid
                } else {
                    OpClass::Invalid
                }
            }
            Op::AddAtt(a, b) => {
                if !self.live.contains(a) || !self.live.contains(b) {
                    OpClass::Invalid
                } else if self.att.contains(&(*a, *b)) {
                    OpClass::Redundant
                } else {
                    OpClass::Valid
                }
            }
            Op::DelAtt(a, b) => {
                if self.att.contains(&(*a, *b)) {
                    OpClass::Valid
                } else {
                    OpClass::Invalid
                }
            }
        }
    }

    /// Applies the *specified* effect.
    pub fn apply(&mut self, op: &Op<usize>) {
        if self.classify(op) != OpClass::Valid {
            return;
        }
        match op {
            Op::AddArg(l) => {
                self.live.insert(*l);
                self.ever.insert(*l);
            }
            Op::DelArg(l) => {
                self.live.remove(l);
                self.att.retain(|(a, b)| a != l && b != l);
            }
            Op::AddAtt(a, b) => {
                self.att.insert((*a, *b));
            }
            Op::DelAtt(a, b) => {
                self.att.remove(&(*a, *b));
            }
        }
    }

    /// The current graph and the label of each of its arguments.
    pub fn graph(&self) -> (Abs, Vec<usize>) {
        let labels: Vec<usize> = self.live.iter().copied().collect();
        let idx: BTreeMap<usize, usize> = labels.iter().enumerate().map(|(i, l)| (*l, i)).collect();
        let att = self.att.iter().map(|(a, b)| (idx[a], idx[b])).collect();
        (Abs::new(labels.len(), att), labels)
    }

    pub fn to_json(&self) -> Value {
        json!({"arguments": self.live.iter().collect::<Vec<_>>(),
               "attacks": self.att.iter().map(|(a, b)| vec![*a, *b]).collect::<Vec<_>>()})
    }
}

// ---------------------------------------------------------------------------------------------
// solver objects
// ---------------------------------------------------------------------------------------------

type QueryOut = (bool, Option<Vec<usize>>);

pub trait DynObj {
    fn update(&mut self, op: &Op<usize>) -> Result<Result<(), String>, PanicInfo>;
    /// Returns the status and the certificate as a list of labels.
    fn query(&mut self, credulous: bool, label: usize, cert: bool) -> Result<QueryOut, PanicInfo>;
}

struct DynBox<S> {
    s: S,
}

impl<S> DynObj for DynBox<S>
where
    S: DynamicSolver<usize> + CredulousAcceptanceComputer<usize> + SkepticalAcceptanceComputer<usize>,
{
    fn update(&mut self, op: &Op<usize>) -> Result<Result<(), String>, PanicInfo> {
        catch(|| match op {
            Op::AddArg(l) => {
                self.s.new_argument(*l);
                Ok(())
            }
            Op::DelArg(l) => self.s.remove_argument(l).map_err(|e| format!("{:#}", e)),
            Op::AddAtt(a, b) => self.s.new_attack(a, b).map_err(|e| format!("{:#}", e)),
            Op::DelAtt(a, b) => self.s.remove_attack(a, b).map_err(|e| format!("{:#}", e)),
        })
    }

    fn query(&mut self, credulous: bool, label: usize, cert: bool) -> Result<QueryOut, PanicInfo> {
        catch(|| {
            let (b, c) = match (credulous, cert) {
                (true, true) => self.s.is_credulously_accepted_with_certificate(&label),
                (true, false) => (self.s.is_credulously_accepted(&label), None),
                (false, true) => self.s.is_skeptically_accepted_with_certificate(&label),
                (false, false) => (self.s.is_skeptically_accepted(&label), None),
            };
            (b, c.map(|v| v.iter().map(|a| *a.label()).collect()))
        })
    }
}

type CredFactory = dyn for<'a> Fn(&'a AAFramework<usize>) -> Box<dyn CredulousAcceptanceComputer<usize> + 'a>;
type SkepFactory = dyn for<'a> Fn(&'a AAFramework<usize>) -> Box<dyn SkepticalAcceptanceComputer<usize> + 'a>;

fn dummy_factories(sem: Sem, h: MonHandle) -> (Box<CredFactory>, Box<SkepFactory>) {
    let h1 = h.clone();
    let h2 = h;
    let fac = |h: &MonHandle| monitor::monitored_factory(Backend::Cadical, Rc::clone(h));
    let cred: Box<CredFactory> = match sem {
        Sem::GR => Box::new(move |af| Box::new(GroundedSemanticsSolver::new(af))),
        Sem::CO | Sem::PR => Box::new(move |af| {
            Box::new(CompleteSemanticsSolver::new_with_sat_solver_factory(af, fac(&h1)))
        }),
        Sem::ST => Box::new(move |af| {
            Box::new(StableSemanticsSolver::new_with_sat_solver_factory(af, fac(&h1)))
        }),
        Sem::SST => Box::new(move |af| {
            Box::new(SemiStableSemanticsSolver::new_with_sat_solver_factory(af, fac(&h1)))
        }),
        Sem::STG => Box::new(move |af| {
            Box::new(StageSemanticsSolver::new_with_sat_solver_factory(af, fac(&h1)))
        }),
        Sem::ID => Box::new(move |af| {
            Box::new(IdealSemanticsSolver::new_with_sat_solver_factory(af, fac(&h1)))
        }),
    };
    let skep: Box<SkepFactory> = match sem {
        Sem::GR | Sem::CO => Box::new(move |af| Box::new(GroundedSemanticsSolver::new(af))),
        Sem::PR => Box::new(move |af| {
            Box::new(PreferredSemanticsSolver::new_with_sat_solver_factory(af, fac(&h2)))
        }),
        Sem::ST => Box::new(move |af| {
            Box::new(StableSemanticsSolver::new_with_sat_solver_factory(af, fac(&h2)))
        }),
        Sem::SST => Box::new(move |af| {
            Box::new(SemiStableSemanticsSolver::new_with_sat_solver_factory(af, fac(&h2)))
        }),
        Sem::STG => Box::new(move |af| {
            Box::new(StageSemanticsSolver::new_with_sat_solver_factory(af, fac(&h2)))
        }),
        Sem::ID => Box::new(move |af| {
            Box::new(IdealSemanticsSolver::new_with_sat_solver_factory(af, fac(&h2)))
        }),
    };
    (cred, skep)
}

pub fn make_solver(kind: &DynKind, h: MonHandle, backend: Backend) -> Result<Box<dyn DynObj>, PanicInfo> {
    make_solver_ctor(kind, h, backend, "factory")
}

/// The constructors that take no SAT-solver factory (`new`, `Default::default`,
/// `new_with_arg_factor`): what a library user writes first.  The SAT boundary is not monitored.
fn make_solver_without_factory(kind: &DynKind, ctor: &str) -> Option<Box<dyn DynObj>> {
    Some(match (kind, ctor) {
        (DynKind::Co, "new") => Box::new(DynBox { s: DynamicCompleteSemanticsSolver::<usize>::new() }),
        (DynKind::Co, "default") => Box::new(DynBox { s: DynamicCompleteSemanticsSolver::<usize>::default() }),
        (DynKind::St, "new") => Box::new(DynBox { s: DynamicStableSemanticsSolver::<usize>::new() }),
        (DynKind::St, "default") => Box::new(DynBox { s: DynamicStableSemanticsSolver::<usize>::default() }),
        (DynKind::Pr, "new") => Box::new(DynBox { s: DynamicPreferredSemanticsSolver::<usize>::new() }),
        (DynKind::Pr, "default") => Box::new(DynBox { s: DynamicPreferredSemanticsSolver::<usize>::default() }),
        (DynKind::CoAtt(_), "new") => Box::new(DynBox { s: DynamicCompleteSemanticsSolverAttacks::<usize>::new() }),
        (DynKind::CoAtt(_), "default") => Box::new(DynBox { s: DynamicCompleteSemanticsSolverAttacks::<usize>::default() }),
        (DynKind::CoAtt(f), "arg-factor") => Box::new(DynBox { s: DynamicCompleteSemanticsSolverAttacks::<usize>::new_with_arg_factor(*f) }),
        (DynKind::StAtt(_), "new") => Box::new(DynBox { s: DynamicStableSemanticsSolverAttacks::<usize>::new() }),
        (DynKind::StAtt(_), "default") => Box::new(DynBox { s: DynamicStableSemanticsSolverAttacks::<usize>::default() }),
        (DynKind::StAtt(f), "arg-factor") => Box::new(DynBox { s: DynamicStableSemanticsSolverAttacks::<usize>::new_with_arg_factor(*f) }),
        _ => return None,
    })
}

pub fn make_solver_ctor(kind: &DynKind, h: MonHandle, backend: Backend, ctor: &str) -> Result<Box<dyn DynObj>, PanicInfo> {
    let kind = kind.clone();
    let ctor = ctor.to_string();
    catch(move || -> Box<dyn DynObj> {
        if ctor != "factory" {
            if let Some(s) = make_solver_without_factory(&kind, &ctor) {
                return s;
            }
        }
        let fac = monitor::monitored_factory(backend, h.clone());
        match kind {
            DynKind::Co => Box::new(DynBox {
                s: DynamicCompleteSemanticsSolver::<usize>::new_with_sat_solver_factory(fac),
            }),
            DynKind::St => Box::new(DynBox {
                s: DynamicStableSemanticsSolver::<usize>::new_with_sat_solver_factory(fac),
            }),
            DynKind::Pr => Box::new(DynBox {
                s: DynamicPreferredSemanticsSolver::<usize>::new_with_sat_solver_factory(fac),
            }),
            DynKind::CoAtt(f) => Box::new(DynBox {
                s: DynamicCompleteSemanticsSolverAttacks::<usize>::new_with_sat_solver_factory_and_arg_factor(fac, f),
            }),
            DynKind::StAtt(f) => Box::new(DynBox {
                s: DynamicStableSemanticsSolverAttacks::<usize>::new_with_sat_solver_factory_and_arg_factor(fac, f),
            }),
            DynKind::Dummy(sem) => {
                let (c, s) = dummy_factories(sem, h);
                Box::new(DynBox {
                    s: DummyDynamicConstraintsEncoder::<usize>::new(Some(c), Some(s)),
                })
            }
        }
    })
}

// ---------------------------------------------------------------------------------------------
// history generation
// ---------------------------------------------------------------------------------------------

pub const SHAPES: [&str; 10] = [
    "load-then-query-all",
    "hub-churn",
    "random",
    "query-after-every-update",
    "burst-then-query-all-twice",
    "grow",
    "churn-one-target",
    "readd",
    "query-then-new-argument",
    "remove-attackers",
];

struct HGen<'a> {
    rng: &'a mut Rng,
    shadow: Shadow,
    universe: Vec<usize>,
    ops: Vec<HOp>,
    kind: DynKind,
    /// probability (percent) that an update is replaced by a redundant or invalid one (C09)
    fault_pct: usize,
}

impl HGen<'_> {
    fn push_upd(&mut self, op: Op<usize>) {
        self.shadow.apply(&op);
        self.ops.push(HOp::Upd(op));
    }

    fn live_vec(&self) -> Vec<usize> {
        self.shadow.live.iter().copied().collect()
    }

    fn random_valid_update(&mut self, weights: &[usize; 4]) -> Option<Op<usize>> {
        for _ in 0..20 {
            let live = self.live_vec();
            match self.rng.weighted(weights) {
                0 => {
                    let dead: Vec<usize> = self
                        .universe
                        .iter()
                        .copied()
                        .filter(|l| !self.shadow.live.contains(l))
                        .collect();
                    if !dead.is_empty() {
                        return Some(Op::AddArg(*self.rng.pick(&dead)));
                    }
                }
                1 => {
                    if !live.is_empty() {
                        return Some(Op::DelArg(*self.rng.pick(&live)));
                    }
                }
                2 => {
                    if !live.is_empty() {
                        let a = *self.rng.pick(&live);
                        let b = if self.rng.pct(12) { a } else { *self.rng.pick(&live) };
                        if !self.shadow.att.contains(&(a, b)) {
                            return Some(Op::AddAtt(a, b));
                        }
                    }
                }
                _ => {
                    if !self.shadow.att.is_empty() {
                        let v: Vec<(usize, usize)> = self.shadow.att.iter().copied().collect();
                        let (a, b) = *self.rng.pick(&v);
                        return Some(Op::DelAtt(a, b));
                    }
                }
            }
        }
        None
    }

    /// A redundant or invalid update for the current state.
    fn faulty_update(&mut self) -> Option<Op<usize>> {
        let live = self.live_vec();
        let dead: Vec<usize> = self
            .universe
            .iter()
            .copied()
            .filter(|l| !self.shadow.live.contains(l))
            .chain(std::iter::once(999))
            .collect();
        for _ in 0..20 {
            match self.rng.below(7) {
                0 => {
                    if !live.is_empty() {
                        return Some(Op::AddArg(*self.rng.pick(&live))); // redundant
                    }
                }
                1 => {
                    if !self.shadow.att.is_empty() {
                        let v: Vec<(usize, usize)> = self.shadow.att.iter().copied().collect();
                        let (a, b) = *self.rng.pick(&v);
                        return Some(Op::AddAtt(a, b)); // redundant
                    }
                }
                2 => return Some(Op::DelArg(*self.rng.pick(&dead))), // unknown or already removed
                3 => {
                    if !live.is_empty() {
                        let a = *self.rng.pick(&live);
                        let b = *self.rng.pick(&live);
                        if !self.shadow.att.contains(&(a, b)) {
                            return Some(Op::DelAtt(a, b)); // unknown attack between live arguments
                        }
                    }
                }
                4 => {
                    if !live.is_empty() {
                        let a = *self.rng.pick(&live);
                        let d = *self.rng.pick(&dead);
                        return Some(if self.rng.pct(50) { Op::AddAtt(a, d) } else { Op::AddAtt(d, a) });
                    }
                }
                5 => {
                    let d = *self.rng.pick(&dead);
                    let e = *self.rng.pick(&dead);
                    return Some(Op::AddAtt(d, e));
                }
                _ => {
                    if !live.is_empty() {
                        let a = *self.rng.pick(&live);
                        let d = *self.rng.pick(&dead);
                        return Some(if self.rng.pct(50) { Op::DelAtt(a, d) } else { Op::DelAtt(d, a) });
                    }
                }
            }
        }
        None
    }

    fn update(&mut self, weights: &[usize; 4]) {
        if self.fault_pct > 0 && self.rng.pct(self.fault_pct) {
            if let Some(op) = self.faulty_update() {
                self.push_upd(op);
                return;
            }
        }
        if let Some(op) = self.random_valid_update(weights) {
            self.push_upd(op);
        }
    }

    fn query(&mut self, label: usize) {
        let modes: Vec<bool> = [
            self.kind.dc_sem().map(|_| true),
            self.kind.ds_sem().map(|_| false),
        ]
        .into_iter()
        .flatten()
        .collect();
        let m = *self.rng.pick(&modes);
        let cert = self.rng.pct(50);
        self.ops.push(HOp::Query(m, label, cert));
    }

    fn query_random(&mut self) {
        let live = self.live_vec();
        if !live.is_empty() {
            let l = *self.rng.pick(&live);
            self.query(l);
        }
    }

    fn query_all_twice(&mut self) {
        let live = self.live_vec();
        for _round in 0..2 {
            for l in live.iter() {
                if self.kind.dc_sem().is_some() {
                    let cert = self.rng.pct(50);
                    self.ops.push(HOp::Query(true, *l, cert));
                }
                if self.kind.ds_sem().is_some() {
                    let cert = self.rng.pct(50);
                    self.ops.push(HOp::Query(false, *l, cert));
                }
            }
        }
    }
}

pub fn gen_history(rng: &mut Rng, kind: &DynKind, shape: &str, max_len: usize, fault_pct: usize) -> HistCase {
    let usize_universe = |rng: &mut Rng| -> Vec<usize> {
        // mostly few labels (collisions, re-additions); one history in sixteen has 9-14 of them
        let k = if rng.pct(6) { rng.range(9, 14) } else { rng.range(4, 8) };
        match rng.below(3) {
            0 => (1..=k).collect(),
            1 => (0..k).collect(),
            _ => (0..k).map(|i| 10 + 3 * i).collect(),
        }
    };
    let universe = usize_universe(rng);
    let mut g = HGen {
        rng,
        shadow: Shadow::default(),
        universe,
        ops: Vec::new(),
        kind: kind.clone(),
        fault_pct,
    };
    let len = g.rng.range(5.min(max_len), max_len);
    match shape {
        "random" => {
            while g.ops.len() < len {
                if g.rng.pct(35) {
                    g.query_random();
                } else {
                    g.update(&[4, 1, 6, 2]);
                }
            }
        }
        "load-then-query-all" => {
            // a framework with planted choice structure (lattice / layered / union of small components, 4-9
            // arguments) is declared in a random order, every argument is queried (twice), then a few updates
            // follow, each batch followed by all queries again: statuses that depend on the declaration order
            let abs = match g.rng.below(4) {
                0 | 1 => crate::gen::lattice(g.rng, 8),
                2 => crate::gen::layered_component(g.rng, 8),
                _ => crate::gen::union_family(g.rng, 9),
            };
            let abs = crate::gen::shuffle_labels(&abs, g.rng);
            let base = *g.rng.pick(&[0usize, 1, 10]);
            let labels: Vec<usize> = (0..abs.n).map(|i| base + i).collect();
            g.universe = labels.clone();
            if g.universe.is_empty() {
                g.universe.push(base);
            }
            for l in labels.iter() {
                g.push_upd(Op::AddArg(*l));
            }
            let mut att = abs.att.clone();
            g.rng.shuffle(&mut att);
            for (a, b) in att {
                g.push_upd(Op::AddAtt(labels[a], labels[b]));
            }
            g.query_all_twice();
            for _ in 0..g.rng.range(0, 3) {
                for _ in 0..g.rng.range(1, 3) {
                    g.update(&[1, 1, 4, 3]);
                }
                g.query_all_twice();
            }
        }
        "query-after-every-update" => {
            while g.ops.len() < len {
                g.update(&[4, 1, 6, 2]);
                g.query_random();
            }
        }
        "burst-then-query-all-twice" => {
            while g.ops.len() < len {
                for _ in 0..g.rng.range(2, 7) {
                    g.update(&[4, 1, 6, 2]);
                }
                g.query_all_twice();
            }
        }
        "grow" => {
            // monotone growth: exhausts the slots reserved by the attack-assumption encoders
            let mut extra = 100;
            while g.ops.len() < len {
                if g.shadow.live.len() >= 11 {
                    // keep the shadow graph within brute-force reach
                    g.update(&[0, 3, 2, 1]);
                } else if g.rng.pct(45) {
                    g.universe.push(extra);
                    extra += 1;
                    let l = *g.universe.last().unwrap();
                    g.push_upd(Op::AddArg(l));
                } else {
                    g.update(&[2, 0, 6, 1]);
                }
                if g.rng.pct(40) {
                    g.query_random();
                }
            }
        }
        "churn-one-target" => {
            for _ in 0..3 {
                g.update(&[1, 0, 0, 0]);
            }
            let live = g.live_vec();
            if !live.is_empty() {
                let target = *g.rng.pick(&live);
                while g.ops.len() < len {
                    let live = g.live_vec();
                    if !g.shadow.live.contains(&target) {
                        g.push_upd(Op::AddArg(target));
                        continue;
                    }
                    let a = *g.rng.pick(&live);
                    if g.shadow.att.contains(&(a, target)) {
                        g.push_upd(Op::DelAtt(a, target));
                    } else {
                        g.push_upd(Op::AddAtt(a, target));
                    }
                    if g.rng.pct(25) {
                        g.update(&[2, 1, 3, 1]);
                    }
                    if g.rng.pct(60) {
                        g.query(target);
                    } else {
                        g.query_random();
                    }
                }
            }
        }
        "readd" => {
            while g.ops.len() < len {
                g.update(&[4, 0, 6, 1]);
                if g.rng.pct(35) {
                    let live = g.live_vec();
                    if !live.is_empty() {
                        let l = *g.rng.pick(&live);
                        let inc: Vec<(usize, usize)> = g
                            .shadow
                            .att
                            .iter()
                            .copied()
                            .filter(|(a, b)| *a == l || *b == l)
                            .collect();
                        g.push_upd(Op::DelArg(l));
                        if g.rng.pct(50) {
                            g.query_random();
                        }
                        g.push_upd(Op::AddArg(l));
                        for (a, b) in inc {
                            if g.rng.pct(70) {
                                g.push_upd(Op::AddAtt(a, b));
                            }
                        }
                        g.query(l);
                    }
                }
                if g.rng.pct(30) {
                    g.query_random();
                }
            }
        }
        "hub-churn" => {
            // one long-lived argument keeps (re-)attacking neighbours that come and go: its attack
            // lists collect tombstones; its attacks are re-added (redundantly) and removed
            let hub = g.universe[0];
            g.push_upd(Op::AddArg(hub));
            let len = len.max(60);
            while g.ops.len() < len {
                let x = g.universe[1 + g.rng.below(g.universe.len() - 1)];
                match g.rng.weighted(&[5, 4, 8, 3, 2, 3]) {
                    0 => {
                        if !g.shadow.live.contains(&x) {
                            g.push_upd(Op::AddArg(x));
                        }
                    }
                    1 => {
                        if g.shadow.live.contains(&x) {
                            g.push_upd(Op::DelArg(x));
                        }
                    }
                    2 => {
                        if g.shadow.live.contains(&x) && (g.fault_pct > 0 || !g.shadow.att.contains(&(hub, x))) {
                            g.push_upd(Op::AddAtt(hub, x));
                        }
                    }
                    3 => {
                        if g.shadow.att.contains(&(hub, x)) {
                            g.push_upd(Op::DelAtt(hub, x));
                        }
                    }
                    4 => g.update(&[1, 0, 4, 1]),
                    _ => {
                        if g.rng.pct(50) {
                            g.query_random();
                        } else if g.shadow.live.contains(&x) {
                            g.query(x);
                        }
                    }
                }
            }
        }
        "query-then-new-argument" => {
            // a query, then fresh arguments and attacks among them, then queries on the new ones
            g.update(&[1, 0, 0, 0]);
            while g.ops.len() < len {
                g.query_random();
                let dead: Vec<usize> = g
                    .universe
                    .iter()
                    .copied()
                    .filter(|l| !g.shadow.live.contains(l))
                    .collect();
                let mut fresh = Vec::new();
                for d in dead.iter().take(g.rng.range(1, 2)) {
                    g.push_upd(Op::AddArg(*d));
                    fresh.push(*d);
                }
                if fresh.is_empty() {
                    g.update(&[0, 2, 2, 2]);
                    continue;
                }
                for f in fresh.iter() {
                    let live = g.live_vec();
                    let o = *g.rng.pick(&live);
                    if g.rng.pct(70) && !g.shadow.att.contains(&(o, *f)) {
                        g.push_upd(Op::AddAtt(o, *f));
                    }
                    if g.rng.pct(70) && !g.shadow.att.contains(&(*f, o)) {
                        g.push_upd(Op::AddAtt(*f, o));
                    }
                }
                for f in fresh.iter() {
                    g.query(*f);
                }
            }
        }
        _ => {
            // remove-attackers: build, then remove arguments that have outgoing attacks
            for _ in 0..g.rng.range(6, 12) {
                g.update(&[3, 0, 6, 0]);
            }
            while g.ops.len() < len {
                let with_out: Vec<usize> = g
                    .shadow
                    .live
                    .iter()
                    .copied()
                    .filter(|l| g.shadow.att.iter().any(|(a, b)| a == l && b != l))
                    .collect();
                if !with_out.is_empty() && g.rng.pct(60) {
                    let l = *g.rng.pick(&with_out);
                    g.push_upd(Op::DelArg(l));
                } else {
                    g.update(&[3, 1, 6, 1]);
                }
                if g.rng.pct(70) {
                    g.query_all_twice();
                }
            }
        }
    }
    // always end on queries of everything
    g.query_all_twice();
    HistCase {
        kind: kind.clone(),
        shape: shape.to_string(),
        ops: g.ops,
        ctor: "factory".to_string(),
    }
}

// ---------------------------------------------------------------------------------------------
// evaluation
// ---------------------------------------------------------------------------------------------

pub const QUERY_CALL_CAP: usize = 3000;

/// Arguments whose internal ids are congruent modulo 64 (ids j and 64 + j) take turns as the attacker
/// of one target, the swap being made inside one batch of updates: any per-argument table that is
/// keyed or summarised modulo the word size sees "the same" attacker set.
pub fn gen_id_alias_history(rng: &mut Rng, kind: &DynKind) -> HistCase {
    let k = rng.range(1, 3);
    let u = 2_000usize;
    let l = |j: usize| 2_010 + j;
    let m = |j: usize| 2_050 + j;
    let t = 2_100usize;
    let mut ops: Vec<HOp> = Vec::new();
    let upd = |ops: &mut Vec<HOp>, op: Op<usize>| ops.push(HOp::Upd(op));
    // ids: u = 0, l(1..=k) = 1..=k, t = k + 1
    upd(&mut ops, Op::AddArg(u));
    for j in 1..=k {
        upd(&mut ops, Op::AddArg(l(j)));
    }
    upd(&mut ops, Op::AddArg(t));
    // ids k + 2 ..= 64 are spent on arguments that are removed again
    for i in 0..(63 - k) {
        let x = 3_000 + (i % 3);
        upd(&mut ops, Op::AddArg(x));
        if rng.pct(10) {
            ops.push(HOp::Query(rng.pct(50), x, rng.pct(50)));
        }
        upd(&mut ops, Op::DelArg(x));
    }
    // m(j) gets id 64 + j
    for j in 1..=k {
        upd(&mut ops, Op::AddArg(m(j)));
    }
    for j in 1..=k {
        upd(&mut ops, Op::AddAtt(u, l(j)));
    }
    let query_all = |ops: &mut Vec<HOp>, rng: &mut Rng| {
        let mut labels = vec![u, t];
        for j in 1..=k {
            labels.push(l(j));
            labels.push(m(j));
        }
        for x in labels {
            ops.push(HOp::Query(true, x, rng.pct(50)));
            ops.push(HOp::Query(false, x, rng.pct(50)));
        }
    };
    let j0 = rng.range(1, k);
    upd(&mut ops, Op::AddAtt(l(j0), t));
    query_all(&mut ops, rng);
    for _ in 0..rng.range(2, 5) {
        let j = rng.range(1, k);
        // one batch: the attacker l(j) of t is replaced by m(j) (or the other way round)
        let (from, to) = if rng.pct(50) { (l(j), m(j)) } else { (m(j), l(j)) };
        upd(&mut ops, Op::AddAtt(from, t));
        query_all(&mut ops, rng);
        upd(&mut ops, Op::DelAtt(from, t));
        upd(&mut ops, Op::AddAtt(to, t));
        query_all(&mut ops, rng);
        upd(&mut ops, Op::DelAtt(to, t));
        if rng.pct(50) {
            ops.push(HOp::Query(rng.pct(50), t, true));
        }
    }
    // updates that were redundant or invalid in the model are harmless: the judge classifies each one
    HistCase { kind: kind.clone(), shape: "id-alias-64".to_string(), ops, ctor: "factory".to_string() }
}

fn hist_hash(c: &HistCase) -> u64 {
    let mut h = Hasher64::new();
    h.str(&serde_json::to_string(&c.to_json()).unwrap());
    h.finish()
}

/// What one history produced: counters for the evidence and at most one violation (the history
/// stops at the first one because the object may be poisoned afterwards).
#[derive(Default)]
pub struct HistOutcome {
    pub evals: u64,
    pub counts: Vec<(String, u64)>,
    pub violation: Option<(String, Value)>,
    pub harness_error: Option<String>,
    pub nontrivial: bool,
    pub final_framework: Value,
}

impl HistOutcome {
    fn eval(&mut self) {
        self.evals += 1;
    }
    fn count(&mut self, k: &str) {
        self.counts.push((k.to_string(), 1));
    }
    fn count_by(&mut self, k: &str, by: u64) {
        self.counts.push((k.to_string(), by));
    }
    fn violation(&mut self, sig: &str, detail: Value) {
        self.violation = Some((sig.to_string(), detail));
    }
    fn harness_error(&mut self, m: &str) {
        self.harness_error = Some(m.to_string());
    }
}

/// Runs one history against the real solver and the shadow model.
/// `prop` is "C08" or "C09" (decides which observations are reported).
pub fn judge_history(prop: &str, case: &HistCase) -> HistOutcome {
    let mut out = HistOutcome::default();
    judge_history_inner(prop, case, &mut out);
    out
}

fn judge_history_inner(prop: &str, case: &HistCase, ctx: &mut HistOutcome) {
    let h = monitor::new_handle();
    {
        let mut s = h.borrow_mut();
        s.keep_clauses = true;
        s.keep_models = false;
    }
    let sname = if case.ctor == "factory" { case.kind.name() } else { format!("{}[{}]", case.kind.name(), case.ctor) };
    let monitored = case.ctor == "factory" || matches!(case.kind, DynKind::Dummy(_));
    let mut solver = match make_solver_ctor(&case.kind, h.clone(), Backend::Cadical, &case.ctor) {
        Ok(s) => s,
        Err(p) => {
            ctx.violation(
                &format!("{}/panic/{}/constructor/{}", prop, sname, p.site()),
                p.to_json());
            return;
        }
    };
    let mut shadow = Shadow::default();
    let mut assumed_vars: BTreeSet<usize> = BTreeSet::new();
    let mut updates_since_query = 0usize;
    let mut nontrivial = false;
    let mut had_fault = false;
    let mut last_was_pr_query = false;
    for (step, hop) in case.ops.iter().enumerate() {
        ctx.eval();
        match hop {
            HOp::Upd(op) => {
                let class = shadow.classify(op);
                if class != OpClass::Valid && prop == "C08" {
                    // C08 quantifies over valid operands only
                    ctx.count("skipped-non-valid-update-in-C08");
                    continue;
                }
                if class != OpClass::Valid {
                    had_fault = true;
                    ctx.count(&format!(
                        "faulty_updates/{}/{}",
                        if class == OpClass::Redundant { "redundant" } else { "invalid" },
                        op.kind()
                    ));
                } else {
                    ctx.count(&format!("updates/{}", op.kind()));
                    match op {
                        Op::AddArg(l) if shadow.ever.contains(l) => ctx.count("coverage/re-added-label"),
                        Op::DelArg(l) if shadow.att.iter().any(|(a, b)| a == l && b != l) => {
                            ctx.count("coverage/removed-argument-with-outgoing-attacks")
                        }
                        Op::AddArg(_) if last_was_pr_query => {
                            ctx.count("coverage/pr-query-then-new-argument")
                        }
                        _ => {}
                    }
                }
                last_was_pr_query = false;
                let r = solver.update(op);
                updates_since_query += 1;
                match r {
                    Err(p) => {
                        ctx.violation(
                            &format!("{}/panic/{}/update-{}/{}", prop, sname, op.kind(), p.site()),
                            json!({"step": step, "op": op.to_json(), "class": format!("{:?}", class), "panic": p.to_json()}));
                        return;
                    }
                    Ok(res) => {
                        let want_ok = class != OpClass::Invalid;
                        if res.is_ok() != want_ok {
                            let what = if want_ok {
                                if class == OpClass::Redundant {
                                    "update-rejected-redundant"
                                } else {
                                    "update-rejected-valid"
                                }
                            } else {
                                "update-accepted-invalid"
                            };
                            ctx.violation(
                                &format!("{}/{}/{}/{}", prop, what, sname, op.kind()),
                                json!({"step": step, "op": op.to_json(), "returned": match &res { Ok(()) => json!("Ok"), Err(e) => json!({"Err": e}) },
                                       "framework_before": shadow.to_json()}));
                            // the object may be poisoned from here on
                            return;
                        }
                    }
                }
                shadow.apply(op);
            }
            HOp::Query(cred, label, cert) => {
                let sem = if *cred { case.kind.dc_sem() } else { case.kind.ds_sem() };
                let sem = match sem {
                    Some(s) => s,
                    None => continue,
                };
                if !shadow.live.contains(label) {
                    continue; // queries are only made on live arguments
                }
                last_was_pr_query = !*cred && matches!(case.kind, DynKind::Pr);
                let (g, labels) = shadow.graph();
                let rs = match RefSem::new(&g) {
                    Ok(r) => r,
                    Err(e) => {
                        ctx.harness_error(&e.0);
                        return;
                    }
                };
                let li = labels.iter().position(|l| l == label).unwrap();
                let calls_before = h.borrow().n_calls;
                let insts_before = h.borrow().instances.len();
                h.borrow_mut().cap = Some(calls_before + QUERY_CALL_CAP);
                let r = solver.query(*cred, *label, *cert);
                let calls = h.borrow().n_calls - calls_before;
                let insts = h.borrow().instances.len() - insts_before;
                ctx.count_by("sat_calls", calls as u64);
                if !monitored {
                    ctx.count("coverage/queries-on-objects-from-factory-less-constructors");
                } else if calls == 0 && !matches!(case.kind, DynKind::Dummy(Sem::GR)) {
                    ctx.count("coverage/queries-with-zero-sat-calls");
                }
                if updates_since_query > 0 {
                    ctx.count("coverage/queries-right-after-update");
                }
                if insts > 0 && matches!(case.kind, DynKind::CoAtt(_) | DynKind::StAtt(_)) {
                    ctx.count("coverage/re-encodings");
                }
                updates_since_query = 0;
                let qj = json!({"step": step, "query": hop.to_json(), "framework": shadow.to_json(), "sat_calls": calls});
                if h.borrow().cap_hit {
                    ctx.violation(
                        &format!("{}/sat-call-cap-exceeded/{}/{}", prop, sname, if *cred { "dc" } else { "ds" }),
                        qj);
                    return;
                }
                let (st, c) = match r {
                    Err(p) => {
                        ctx.violation(
                            &format!("{}/panic/{}/query-{}/{}", prop, sname, if *cred { "dc" } else { "ds" }, p.site()),
                            json!({"at": qj, "panic": p.to_json()}));
                        return;
                    }
                    Ok(x) => x,
                };
                let mask = 1u32 << li;
                let exp = if *cred { rs.cred(sem, mask) } else { rs.skep(sem, mask) };
                if rs.cred(sem, mask) != rs.skep(sem, mask) || rs.exts(sem).is_empty() {
                    nontrivial = true;
                }
                let suffix = if had_fault { "after-faulty-update" } else { "valid-history" };
                if st != exp {
                    ctx.violation(
                        &format!("{}/status/{}/{}/{}/{}", prop, sname, if *cred { "dc" } else { "ds" },
                                 if st { "got-yes" } else { "got-no" }, suffix),
                        json!({"at": qj, "expected": exp, "observed": st, "certificate": c}));
                    return;
                }
                if *cert {
                    let due = if *cred { st } else { !st };
                    match (&c, due) {
                        (None, true) => {
                            ctx.violation(
                                &format!("{}/certificate-missing/{}/{}/{}", prop, sname, if *cred { "dc" } else { "ds" }, suffix),
                                json!({"at": qj, "status": st}));
                            return;
                        }
                        (Some(cl), false) => {
                            ctx.violation(
                                &format!("{}/certificate-unexpected/{}/{}/{}", prop, sname, if *cred { "dc" } else { "ds" }, suffix),
                                json!({"at": qj, "status": st, "certificate": cl}));
                            return;
                        }
                        (Some(cl), true) => {
                            ctx.count("certificates_checked");
                            let mut m = 0u32;
                            let mut bad: Vec<String> = Vec::new();
                            for l in cl.iter() {
                                match labels.iter().position(|x| x == l) {
                                    None => bad.push(format!("member {} is not a live argument", l)),
                                    Some(i) => {
                                        if m & (1 << i) != 0 {
                                            bad.push(format!("member {} listed twice", l));
                                        }
                                        m |= 1 << i;
                                    }
                                }
                            }
                            let cert_sem = if sem == Sem::PR && *cred { Sem::CO } else { sem };
                            let has = m & mask != 0;
                            if !bad.is_empty() || has != *cred || !rs.is_ext(cert_sem, m) {
                                ctx.violation(
                                    &format!("{}/certificate-invalid/{}/{}/{}", prop, sname, if *cred { "dc" } else { "ds" }, suffix),
                                    json!({"at": qj, "status": st, "certificate": cl, "member_errors": bad,
                                           "contains_argument": has, "is_extension": rs.is_ext(cert_sem, m)}));
                                return;
                            }
                        }
                        (None, false) => {}
                    }
                }
                // assumption variables seen (for the selector-retirement coverage counter)
                let s = h.borrow();
                for call in s.calls.iter().rev().take(calls) {
                    for a in call.assumptions.iter() {
                        if *a > 0 {
                            assumed_vars.insert(*a as usize);
                        }
                    }
                    if call.verdict == Verdict::Unknown {
                        // cannot happen with CaDiCaL without limits
                    }
                }
            }
        }
    }
    // coverage: selector retirements = negative unit clauses on a variable that was assumed before
    {
        let s = h.borrow();
        let mut retired = 0u64;
        for inst in s.instances.iter() {
            for c in inst.clauses.iter() {
                if c.len() == 1 && c[0] < 0 && assumed_vars.contains(&(c[0].unsigned_abs())) {
                    retired += 1;
                }
            }
        }
        if retired > 0 {
            ctx.count_by("coverage/selector-retirements", retired);
        }
        if !s.contract_errors.is_empty() {
            ctx.count_by("sat_contract_errors_seen", s.contract_errors.len() as u64);
        }
    }
    ctx.count(&format!("histories/{}", case.kind.name()));
    if case.ctor != "factory" {
        ctx.count(&format!("constructors/{}", sname));
    }
    ctx.count(&format!("shapes/{}", case.shape));
    ctx.nontrivial = nontrivial && (prop == "C08" || had_fault);
    ctx.final_framework = shadow.to_json();
}

/// Greedy one-at-a-time removal of operations that keeps the same violation signature.
pub fn shrink(prop: &str, case: &HistCase, signature: &str) -> HistCase {
    let mut cur = case.clone();
    let mut budget = 4000usize;
    loop {
        let mut progressed = false;
        let mut i = cur.ops.len();
        while i > 0 && budget > 0 {
            i -= 1;
            budget -= 1;
            let mut cand = cur.clone();
            cand.ops.remove(i);
            let o = judge_history(prop, &cand);
            if o.violation.as_ref().map(|(s, _)| s == signature).unwrap_or(false) {
                cur = cand;
                progressed = true;
            }
        }
        if !progressed || budget == 0 {
            break;
        }
    }
    cur
}

pub fn eval_history(ctx: &mut Ctx, prop: &str, case: &HistCase) {
    if case.ctor != "factory" && !ctx.replay_mode {
        // an object from a factory-less constructor cannot be capped by the SAT-boundary monitor: the
        // history is first put to a monitored object; only if that one behaves is the other one run
        // (a defect that makes a search spin would otherwise hang the shard instead of being reported)
        let mut monitored = case.clone();
        monitored.ctor = "factory".to_string();
        let o = judge_history(prop, &monitored);
        if o.violation.is_some() || o.harness_error.is_some() {
            eval_history(ctx, prop, &monitored);
            return;
        }
    }
    let o = judge_history(prop, case);
    ctx.evals_by(o.evals);
    for (k, v) in o.counts.iter() {
        ctx.count_by(k, *v);
    }
    if let Some(m) = &o.harness_error {
        ctx.harness_error(m);
        return;
    }
    if let Some((sig, detail)) = &o.violation {
        // report the minimised history (same signature), keep the original length in the detail
        let small = if ctx.replay_mode { case.clone() } else { shrink(prop, case, sig) };
        let o2 = judge_history(prop, &small);
        let (sig2, detail2) = match o2.violation {
            Some((s, d)) if &s == sig => (s, d),
            _ => (sig.clone(), detail.clone()),
        };
        let mut d = detail2;
        if let Value::Object(m) = &mut d {
            m.insert("original_history_length".to_string(), json!(case.ops.len()));
        }
        ctx.violation(&sig2, d, &small.to_json());
        return;
    }
    if o.nontrivial {
        ctx.nontrivial(hist_hash(case));
    }
    let key = format!("{}/{}", case.kind.name(), case.shape);
    ctx.sample(&key, || {
        let mut j = case.to_json();
        if let Value::Object(m) = &mut j {
            m.insert("final_framework".to_string(), o.final_framework.clone());
        }
        j
    });
}

pub fn all_kinds() -> Vec<DynKind> {
    let mut v = vec![DynKind::Co, DynKind::St, DynKind::Pr];
    for f in FACTORS {
        v.push(DynKind::CoAtt(f));
        v.push(DynKind::StAtt(f));
    }
    for s in [Sem::CO, Sem::PR, Sem::ST, Sem::SST, Sem::STG, Sem::ID, Sem::GR] {
        v.push(DynKind::Dummy(s));
    }
    v
}

/// Kind weights: the native dynamic solvers get most of the budget.
fn pick_kind(rng: &mut Rng) -> DynKind {
    match rng.weighted(&[5, 5, 6, 4, 4, 2]) {
        0 => DynKind::Co,
        1 => DynKind::St,
        2 => DynKind::Pr,
        3 => DynKind::CoAtt(*rng.pick(&FACTORS)),
        4 => DynKind::StAtt(*rng.pick(&FACTORS)),
        _ => DynKind::Dummy(*rng.pick(&[Sem::CO, Sem::PR, Sem::ST, Sem::SST, Sem::STG, Sem::ID, Sem::GR])),
    }
}

pub fn run(ctx: &mut Ctx, prop: &str) {
    let n: u64 = match (prop, ctx.tier) {
        ("C08", Tier::Quick) => 240_000,
        ("C08", Tier::Thorough) => 4_000_000,
        (_, Tier::Quick) => 240_000,
        (_, Tier::Thorough) => 4_000_000,
    };
    let fault_pct = if prop == "C09" { 15 } else { 0 };
    let tag: u64 = if prop == "C09" { 9 } else { 8 };
    for i in 0..n {
        if !ctx.mine(i) {
            continue;
        }
        if ctx.out_of_time() {
            return;
        }
        let mut rng = Rng::from_path(&[ctx.seed, tag, i]);
        let kind = pick_kind(&mut rng);
        let shape = SHAPES[rng.below(SHAPES.len())];
        let max_len = if ctx.tier == Tier::Thorough && i % 50 == 0 {
            400
        } else if rng.pct(4) {
            // some defects need dozens of ordinary steps (two removals, a re-creation, then a query)
            rng.range(60, 150)
        } else {
            *rng.pick(&[12usize, 25, 40])
        };
        let mut case = if !matches!(kind, DynKind::Dummy(_)) && i % 100 == 37 {
            gen_id_alias_history(&mut rng, &kind)
        } else {
            gen_history(&mut rng, &kind, shape, max_len, fault_pct)
        };
        // one history in thirty starts with a warm-up: 70-150 arguments created and removed again (ids
        // beyond 64 and 128, hundreds of buffered events, retired variables) before the history proper
        if !matches!(kind, DynKind::Dummy(_)) && case.shape != "id-alias-64" && rng.pct(3) {
            let labels: Vec<usize> = (0..3).map(|k| 1_000 + k).collect();
            let mut warm: Vec<HOp> = Vec::new();
            for j in 0..rng.range(70, 150) {
                let l = labels[j % labels.len()];
                warm.push(HOp::Upd(Op::AddArg(l)));
                if rng.pct(15) {
                    warm.push(HOp::Query(rng.pct(50), l, rng.pct(50)));
                }
                warm.push(HOp::Upd(Op::DelArg(l)));
            }
            warm.append(&mut case.ops);
            case.ops = warm;
            case.shape = format!("warm-up+{}", case.shape);
        }
        // one history in twelve is put to an object built by a constructor that takes no factory
        // (`new`, `Default`, `new_with_arg_factor`): configurations a user reaches first
        if !matches!(kind, DynKind::Dummy(_)) && rng.pct(8) {
            let ctors: &[&str] = match kind {
                DynKind::CoAtt(_) | DynKind::StAtt(_) => &["new", "default", "arg-factor", "arg-factor"],
                _ => &["new", "default"],
            };
            case.ctor = rng.pick(ctors).to_string();
        }
        if i % 64 == 0 {
            ctx.case_begin(&json!({"i": i, "solver": kind.name(), "shape": shape}));
        }
        crate::report::guarded(ctx, |ctx| eval_history(ctx, prop, &case));
    }
}

pub fn replay(ctx: &mut Ctx, prop: &str, case: &Value) -> Result<(), String> {
    let c = HistCase::from_json(case).ok_or("cannot parse history case")?;
    eval_history(ctx, prop, &c);
    Ok(())
}
