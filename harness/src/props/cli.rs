//! Check C05: the command-line tools print exactly the right answer, or none.

use crate::props::store_io::{gen_apx_text, gen_iccma_text, gen_listed_illformed};
use crate::refsem::{mask_of, Abs, RefSem, Sem, ALL_SEMS};
use crate::report::{Ctx, Tier};
use crate::rng::{Hasher64, Rng};
use serde_json::{json, Value};
use std::path::{Path, PathBuf};
use std::process::Command;

pub const QUERIES: [&str; 3] = ["SE", "DC", "DS"];

pub fn all_problems() -> Vec<String> {
    let mut v = Vec::new();
    for s in ALL_SEMS {
        for q in QUERIES {
            v.push(format!("{}-{}", q, s.name()));
        }
    }
    v
}

struct Instance {
    apx: bool,
    bytes: Vec<u8>,
    names: Vec<String>,
    abs: Abs,
}

fn gen_instance(rng: &mut Rng) -> Instance {
    // the brute-force oracle of this check needs small frameworks: the occasional 18-60 argument
    // text of the generators (meant for the readers, C13) is redrawn
    loop {
        let i = gen_instance_any(rng);
        if i.names.len() <= 12 {
            return i;
        }
    }
}

/// Replaces the identifier `old` by `new` wherever it stands as a whole token of an Aspartix text.
fn replace_ident(bytes: &[u8], old: &str, new: &str) -> Vec<u8> {
    let is_id = |c: u8| c.is_ascii_alphanumeric() || c == b'_';
    let o = old.as_bytes();
    let mut out = Vec::with_capacity(bytes.len() + 8);
    let mut i = 0;
    while i < bytes.len() {
        if bytes[i..].starts_with(o) && (i == 0 || !is_id(bytes[i - 1])) && (i + o.len() == bytes.len() || !is_id(bytes[i + o.len()])) {
            out.extend_from_slice(new.as_bytes());
            i += o.len();
        } else {
            out.push(bytes[i]);
            i += 1;
        }
    }
    out
}

fn gen_instance_any(rng: &mut Rng) -> Instance {
    let mut inst = gen_instance_plain(rng);
    // an Aspartix argument may be called like a sub-command or an option value: help, solve, h, ...
    if inst.apx && !inst.names.is_empty() && rng.pct(12) {
        let new = *rng.pick(&["help", "solve", "h", "authors", "problems", "check"]);
        if !inst.names.iter().any(|n| n == new) {
            let i = rng.below(inst.names.len());
            let old = inst.names[i].clone();
            // `arg` / `att` are keywords of the format, never renamed to or from
            if old != "arg" && old != "att" {
                inst.bytes = replace_ident(&inst.bytes, &old, new);
                inst.names[i] = new.to_string();
            }
        }
    }
    inst
}

fn gen_instance_plain(rng: &mut Rng) -> Instance {
    if rng.pct(50) {
        let (bytes, n, atts) = gen_iccma_text(rng);
        Instance { apx: false, bytes, names: (1..=n).map(|i| i.to_string()).collect(), abs: Abs::new(n, atts) }
    } else {
        let (bytes, names, atts) = gen_apx_text(rng);
        let n = names.len();
        Instance { apx: true, bytes, names, abs: Abs::new(n, atts) }
    }
}

pub struct RunOut {
    pub code: Option<i32>,
    pub stdout: String,
    pub stderr: String,
}

/// Runs a binary with a generous wall-clock watchdog (a firing watchdog is inconclusive, never a verdict).
pub fn run(bin: &Path, args: &[String]) -> Option<RunOut> {
    run_with_stdin(bin, args, None)
}

/// The same with bytes fed to the child's standard input (instances are far below the pipe capacity,
/// so they are written in one go before waiting): `-f /dev/stdin` makes the instance a *pipe*, a
/// readable file whose reported size is 0.
pub fn run_with_stdin(bin: &Path, args: &[String], input: Option<&[u8]>) -> Option<RunOut> {
    use std::io::{Read, Write};
    let mut child = Command::new(bin)
        .args(args)
        .env("RUST_BACKTRACE", "0")
        .stdin(if input.is_some() { std::process::Stdio::piped() } else { std::process::Stdio::null() })
        .stdout(std::process::Stdio::piped())
        .stderr(std::process::Stdio::piped())
        .spawn()
        .ok()?;
    if let Some(bytes) = input {
        if let Some(mut si) = child.stdin.take() {
            let _ = si.write_all(bytes);
        }
    }
    // both output streams are drained while waiting (an answer with thousands of arguments exceeds the pipe capacity)
    let mut o = child.stdout.take();
    let mut e = child.stderr.take();
    let ho = std::thread::spawn(move || {
        let mut b = Vec::new();
        if let Some(o) = o.as_mut() {
            let _ = o.read_to_end(&mut b);
        }
        b
    });
    let he = std::thread::spawn(move || {
        let mut b = Vec::new();
        if let Some(e) = e.as_mut() {
            let _ = e.read_to_end(&mut b);
        }
        b
    });
    let t0 = std::time::Instant::now();
    let status = loop {
        match child.try_wait() {
            Ok(Some(s)) => break s,
            Ok(None) => {
                if t0.elapsed() > std::time::Duration::from_secs(60) {
                    let _ = child.kill();
                    let _ = child.wait();
                    WATCHDOG_FIRED.with(|w| w.set(w.get() + 1));
                    return None;
                }
                std::thread::sleep(std::time::Duration::from_millis(1));
            }
            Err(_) => return None,
        }
    };
    let so = String::from_utf8_lossy(&ho.join().unwrap_or_default()).to_string();
    let se = String::from_utf8_lossy(&he.join().unwrap_or_default()).to_string();
    Some(RunOut { code: status.code(), stdout: so, stderr: se })
}

thread_local! {
    static WATCHDOG_FIRED: std::cell::Cell<u64> = const { std::cell::Cell::new(0) };
}

pub fn answer_shaped(line: &str) -> bool {
    if line == "YES" || line == "NO" || line == "w" {
        return true;
    }
    if let Some(rest) = line.strip_prefix("w ") {
        return !rest.is_empty();
    }
    line.starts_with('[') && line.ends_with(']')
}

pub fn parse_witness(apx: bool, line: &str) -> Option<Vec<String>> {
    if apx {
        let inner = line.strip_prefix('[')?.strip_suffix(']')?;
        if inner.is_empty() {
            return Some(vec![]);
        }
        let v: Vec<String> = inner.split(',').map(|s| s.to_string()).collect();
        if v.iter().any(|s| s.is_empty() || s.contains(' ')) {
            return None;
        }
        Some(v)
    } else {
        let rest = line.strip_prefix('w')?;
        if rest.is_empty() {
            return Some(vec![]);
        }
        let rest = rest.strip_prefix(' ')?;
        let v: Vec<String> = rest.split(' ').map(|s| s.to_string()).collect();
        if v.iter().any(|s| s.is_empty()) {
            return None;
        }
        Some(v)
    }
}

fn mix_case(rng: &mut Rng, s: &str) -> String {
    match rng.below(4) {
        0 => s.to_string(),
        1 => s.to_ascii_lowercase(),
        _ => s.chars().map(|c| if rng.pct(50) { c.to_ascii_lowercase() } else { c.to_ascii_uppercase() }).collect(),
    }
}

fn invocation_json(bin: &str, args: &[String], inst: Option<&Instance>) -> Value {
    json!({"binary": bin, "args": args,
           "file_text": inst.map(|i| String::from_utf8_lossy(&i.bytes).to_string()),
           "file_hex": inst.map(|i| i.bytes.iter().map(|b| format!("{:02x}", b)).collect::<String>()),
           "format": inst.map(|i| if i.apx { "apx" } else { "iccma23" })})
}

/// Judges one successful-path run.
#[allow(clippy::too_many_arguments)]
fn judge_success(
    ctx: &mut Ctx,
    bin_name: &str,
    args: &[String],
    inst: &Instance,
    rs: &RefSem,
    query: &str,
    sem: Sem,
    arg: Option<usize>,
    cert_expected: bool,
    logging_on: bool,
    out: &RunOut,
) {
    let case = invocation_json(bin_name, args, Some(inst));
    let problem = format!("{}-{}", query, sem.name());
    let sigp = format!("{}/{}", bin_name, problem);
    if out.code != Some(0) {
        ctx.violation(
            &format!("C05/success-path-exit-status/{}", sigp),
            json!({"exit_status": out.code, "stdout": out.stdout, "stderr": out.stderr.chars().take(400).collect::<String>()}),
            &case,
        );
        return;
    }
    if !out.stdout.ends_with('\n') && !out.stdout.is_empty() {
        ctx.violation(&format!("C05/stdout-not-newline-terminated/{}", sigp), json!({"stdout": out.stdout}), &case);
        return;
    }
    let all_lines: Vec<&str> = out.stdout.lines().collect();
    let lines: Vec<&str> = if logging_on { all_lines.iter().copied().filter(|l| !l.starts_with("![")).collect() } else { all_lines.clone() };
    if logging_on && all_lines.len() == lines.len() {
        ctx.count("logging-on-runs-without-log-lines");
    }
    if logging_on {
        ctx.count_by("log_lines_filtered", (all_lines.len() - lines.len()) as u64);
    }
    let fail_format = |ctx: &mut Ctx, what: &str| {
        ctx.violation(
            &format!("C05/stdout-format/{}", sigp),
            json!({"what": what, "stdout": out.stdout, "answer_lines": lines}),
            &case,
        );
    };
    let idx_of = |names: &[String]| -> Option<Vec<usize>> { names.iter().map(|n| inst.names.iter().position(|x| x == n)).collect() };
    let exts = rs.exts(sem);
    match query {
        "SE" => {
            if lines.len() != 1 {
                return fail_format(ctx, "expected exactly one line");
            }
            if exts.is_empty() {
                if lines[0] != "NO" {
                    ctx.violation(&format!("C05/answer/{}", sigp), json!({"expected": "NO", "stdout": out.stdout}), &case);
                }
                return;
            }
            let w = match parse_witness(inst.apx, lines[0]) {
                Some(w) => w,
                None => return fail_format(ctx, "witness line does not follow the grammar"),
            };
            let set = match idx_of(&w) {
                Some(s) => s,
                None => return ctx.violation(&format!("C05/witness-unknown-argument/{}", sigp), json!({"witness": w}), &case),
            };
            let mut d = set.clone();
            d.sort();
            d.dedup();
            if d.len() != set.len() || !rs.is_ext(sem, mask_of(&set)) {
                ctx.violation(&format!("C05/witness-not-an-extension/{}", sigp), json!({"witness": w, "semantics": sem.name()}), &case);
            }
        }
        _ => {
            let a = arg.unwrap();
            let m = 1u32 << a;
            let exp = if query == "DC" { rs.cred(sem, m) } else { rs.skep(sem, m) };
            if lines.is_empty() || (lines[0] != "YES" && lines[0] != "NO") {
                return fail_format(ctx, "first line is not YES or NO");
            }
            let st = lines[0] == "YES";
            if st != exp {
                ctx.violation(&format!("C05/answer/{}", sigp), json!({"expected": if exp { "YES" } else { "NO" }, "stdout": out.stdout, "argument": inst.names[a]}), &case);
                return;
            }
            let due = cert_expected && ((query == "DC" && st) || (query == "DS" && !st));
            if !due {
                if lines.len() != 1 {
                    return fail_format(ctx, "expected only the status line");
                }
                return;
            }
            if lines.len() != 2 {
                return fail_format(ctx, "expected a status line and one witness line");
            }
            let w = match parse_witness(inst.apx, lines[1]) {
                Some(w) => w,
                None => return fail_format(ctx, "witness line does not follow the grammar"),
            };
            let set = match idx_of(&w) {
                Some(s) => s,
                None => return ctx.violation(&format!("C05/witness-unknown-argument/{}", sigp), json!({"witness": w}), &case),
            };
            let cert_sem = if query == "DC" && sem == Sem::PR { Sem::CO } else { sem };
            let has = set.contains(&a);
            let mut d = set.clone();
            d.sort();
            d.dedup();
            if d.len() != set.len() || has != (query == "DC") || !rs.is_ext(cert_sem, mask_of(&set)) {
                ctx.violation(
                    &format!("C05/witness-invalid/{}", sigp),
                    json!({"witness": w, "argument": inst.names[a], "contains_argument": has, "is_extension": rs.is_ext(cert_sem, mask_of(&set))}),
                    &case,
                );
            }
        }
    }
}

fn write_file(dir: &Path, name: &str, bytes: &[u8]) -> Option<PathBuf> {
    let p = dir.join(name);
    std::fs::write(&p, bytes).ok()?;
    Some(p)
}

fn success_runs(ctx: &mut Ctx, rng: &mut Rng, dir: &Path) {
    let inst = gen_instance(rng);
    let rs = match RefSem::new(&inst.abs) {
        Ok(r) => r,
        Err(e) => {
            ctx.harness_error(&e.0);
            return;
        }
    };
    // file names a shell user can produce: with blanks, with a trailing blank, called like a sub-command
    let fname: String = match rng.below(12) {
        0 => "my instance.af".to_string(),
        1 => "inst.af ".to_string(),
        2 => "help".to_string(),
        3 => "inst.apx\t".to_string(),
        // the extension says nothing about the format: an ICCMA'23 instance may be called x.apx, an
        // Aspartix one x.af (the reader is chosen by -r / by the wrapper, never by the name)
        4 => if inst.apx { "inst.af".to_string() } else { "inst.apx".to_string() },
        _ => if inst.apx { "inst.apx".to_string() } else { "inst.af".to_string() },
    };
    if fname != "inst.apx" && fname != "inst.af" {
        ctx.count("success_runs/unusual-file-name");
    }
    let mut file = match write_file(dir, &fname, &inst.bytes) {
        Some(f) => f,
        None => {
            ctx.harness_error("cannot write instance");
            return;
        }
    };
    // paths a user types: through `.`, through `sub/..`, and through a symbolic link to a directory followed
    // by `..` (which the operating system resolves from the link's *target*: work/link/../x is real/x, not
    // work/x -- where a different, decoy instance sits half of the time)
    match rng.below(16) {
        0 => {
            file = dir.join(".").join(&fname);
            ctx.count("success_runs/path-with-dot-component");
        }
        1 => {
            let _ = std::fs::create_dir_all(dir.join("sub"));
            file = dir.join("sub").join("..").join(&fname);
            ctx.count("success_runs/path-with-dot-dot-component");
        }
        2 | 3 => {
            let real = dir.join("real");
            let work = dir.join("work");
            let _ = std::fs::create_dir_all(real.join("deep"));
            let _ = std::fs::create_dir_all(&work);
            let link = work.join("link");
            let _ = std::fs::remove_file(&link);
            let decoy = work.join("inst-l.af");
            let _ = std::fs::remove_file(&decoy);
            if std::os::unix::fs::symlink("../real/deep", &link).is_ok() && std::fs::write(real.join("inst-l.af"), &inst.bytes).is_ok() {
                if rng.pct(50) {
                    let _ = std::fs::write(&decoy, if inst.apx { &b"arg(decoy_zz).\n"[..] } else { &b"p af 1\n"[..] });
                }
                file = link.join("..").join("inst-l.af");
                ctx.count("success_runs/path-through-symlinked-directory-then-dot-dot");
            }
        }
        _ => {}
    }
    let n = inst.abs.n;
    let problems = all_problems();
    let crustabri = ctx.repo_bin_dir.join("crustabri");
    let wrapper = ctx.repo_bin_dir.join("crustabri_iccma23");
    let mut nontrivial = false;
    for p in problems.iter() {
        let (q, s) = p.split_once('-').unwrap();
        let sem = Sem::from_name(s).unwrap();
        let args_idx: Vec<Option<usize>> = if q == "SE" {
            vec![None]
        } else if n == 0 {
            vec![]
        } else if n <= 3 {
            (0..n).map(Some).collect()
        } else {
            vec![Some(rng.below(n)), Some(rng.below(n))]
        };
        for a in args_idx {
            // crustabri solve
            let mut enc = *rng.pick(&[None, None, Some("aux_var"), Some("exp"), Some("hybrid")]);
            if enc == Some("exp") && crate::props::static_eval::exp_cost(&inst.abs) > 2000 {
                // repeated attack lines make the exp encoder's clause count explode (by design exponential)
                ctx.count("skipped/exp-encoder-clause-explosion");
                enc = None;
            }
            let cert = rng.pct(50);
            // every logging level: the answer lines must be exactly the same, log lines start with `![`
            // "default" = no --logging-level flag at all (what a user types first): logging is on, at level info
            let level = *rng.pick(&["off", "off", "off", "off", "info", "info", "warn", "error", "debug", "trace", "default", "default"]);
            let logging_on = level != "off";
            let mut args: Vec<String> = vec!["solve".into(), "-f".into(), file.to_string_lossy().to_string(), "-p".into(), mix_case(rng, p)];
            if inst.apx || rng.pct(50) {
                args.push("-r".into());
                args.push(if inst.apx { "apx" } else { "iccma23" }.into());
            }
            if let Some(a) = a {
                args.push("-a".into());
                args.push(inst.names[a].clone());
            } else if rng.pct(10) && n > 0 {
                // superfluous -a for SE is not an error
                args.push("-a".into());
                args.push(inst.names[0].clone());
            }
            if let Some(e) = enc {
                args.push("--encoding".into());
                args.push(e.into());
            }
            if cert {
                args.push(if rng.pct(50) { "-c" } else { "--with-certificate" }.into());
            }
            // one run in five delegates the SAT calls to an external solver (the monitor solver or kissat):
            // the answer lines are the same whichever backend computes them
            if rng.pct(20) {
                args.push("--external-sat-solver".into());
                if rng.pct(50) {
                    args.push(ctx.bin_dir.join("msat").to_string_lossy().to_string());
                } else {
                    args.push("kissat".into());
                    args.push("--external-sat-solver-opt=-q".into());
                }
                ctx.count("success_runs/external-sat-solver");
            }
            if level != "default" {
                // both spellings of an option with a value: two words, or one word with '='
                if rng.pct(30) {
                    args.push(format!("--logging-level={}", level));
                    ctx.count("success_runs/option-spelled-with-equals-sign");
                } else {
                    args.push("--logging-level".into());
                    args.push(level.into());
                }
            } else {
                ctx.count("success_runs/no-logging-level-flag");
            }
            // one run in twelve reads the instance from a named pipe instead of a regular file: a readable
            // file whose reported size is 0 and that can be read only once
            let via_pipe = inst.bytes.len() < 32_768 && rng.pct(8);
            let mut feeder: Option<(std::thread::JoinHandle<()>, PathBuf)> = None;
            if via_pipe {
                let fifo = dir.join(if inst.apx { "inst-fifo.apx" } else { "inst-fifo.af" });
                let _ = std::fs::remove_file(&fifo);
                let c = std::ffi::CString::new(fifo.to_string_lossy().as_bytes()).unwrap();
                if unsafe { libc::mkfifo(c.as_ptr(), 0o600) } == 0 {
                    let bytes = inst.bytes.clone();
                    let fp = fifo.clone();
                    // opening for writing blocks until the binary opens the pipe for reading
                    let h = std::thread::spawn(move || {
                        use std::io::Write;
                        if let Ok(mut f) = std::fs::OpenOptions::new().write(true).open(&fp) {
                            let _ = f.write_all(&bytes);
                        }
                    });
                    args[2] = fifo.to_string_lossy().to_string();
                    feeder = Some((h, fifo));
                    ctx.count("success_runs/instance-read-from-a-named-pipe");
                }
            }
            let ran = run(&crustabri, &args);
            if let Some((h, fifo)) = feeder {
                // a binary that never opened the pipe would leave the feeder blocked: open it ourselves
                if !h.is_finished() {
                    use std::os::unix::fs::OpenOptionsExt;
                    let reader = std::fs::OpenOptions::new().read(true).custom_flags(libc::O_NONBLOCK).open(&fifo);
                    std::thread::sleep(std::time::Duration::from_millis(50));
                    drop(reader);
                }
                let _ = h.join();
                let _ = std::fs::remove_file(&fifo);
            }
            if let Some(out) = ran {
                ctx.eval();
                ctx.count(&format!("success_runs/crustabri/{}", q));
                if logging_on {
                    ctx.count("success_runs/logging-on");
                }
                judge_success(ctx, "crustabri", &args, &inst, &rs, q, sem, a, cert, logging_on, &out);
                if let Some(a) = a {
                    if rs.cred(sem, 1 << a) != rs.skep(sem, 1 << a) || rs.exts(sem).is_empty() {
                        nontrivial = true;
                    }
                }
            } else {
                ctx.harness_error("cannot run crustabri");
                return;
            }
            // the ICCMA'23 wrapper: fixed translation (iccma23 reader, certificate on, logging off)
            if !inst.apx {
                let mut wargs: Vec<String> = vec!["-f".into(), file.to_string_lossy().to_string(), "-p".into(), mix_case(rng, p)];
                if let Some(a) = a {
                    wargs.push("-a".into());
                    wargs.push(inst.names[a].clone());
                }
                if let Some(out) = run(&wrapper, &wargs) {
                    ctx.eval();
                    ctx.count(&format!("success_runs/crustabri_iccma23/{}", q));
                    judge_success(ctx, "crustabri_iccma23", &wargs, &inst, &rs, q, sem, a, true, false, &out);
                }
            }
        }
    }
    if nontrivial || rs.st.is_empty() {
        let mut h = Hasher64::new();
        h.bytes(&inst.bytes);
        ctx.nontrivial(h.finish());
    }
    ctx.sample(if inst.apx { "instance/apx" } else { "instance/iccma23" }, || {
        json!({"format": if inst.apx { "apx" } else { "iccma23" }, "text": String::from_utf8_lossy(&inst.bytes), "arguments": inst.names})
    });
}

fn judge_error(ctx: &mut Ctx, bin_name: &str, kind: &str, args: &[String], inst: Option<&Instance>, out: &RunOut) {
    ctx.eval();
    ctx.count(&format!("error_runs/{}/{}", bin_name, kind));
    let answered: Vec<&str> = out.stdout.lines().filter(|l| answer_shaped(l)).collect();
    if out.code == Some(0) || !answered.is_empty() {
        ctx.violation(
            &format!("C05/error-not-reported/{}/{}", bin_name, kind),
            json!({"kind": kind, "exit_status": out.code, "answer_shaped_lines": answered, "stdout": out.stdout.chars().take(400).collect::<String>(),
                   "stderr": out.stderr.chars().take(300).collect::<String>()}),
            &invocation_json(bin_name, args, inst),
        );
    } else {
        let mut h = Hasher64::new();
        h.str(bin_name);
        h.str(kind);
        for a in args.iter().skip(3) {
            h.str(a);
        }
        ctx.nontrivial(h.finish());
    }
}

fn error_runs(ctx: &mut Ctx, rng: &mut Rng, dir: &Path) {
    // a small well-formed instance to attach the faulty part to
    let inst = loop {
        let i = gen_instance(rng);
        if i.abs.n >= 2 {
            break i;
        }
    };
    let good = match write_file(dir, if inst.apx { "ok.apx" } else { "ok.af" }, &inst.bytes) {
        Some(f) => f.to_string_lossy().to_string(),
        None => return,
    };
    let n = inst.abs.n;
    let rdr = if inst.apx { "apx" } else { "iccma23" };
    let crustabri = ctx.repo_bin_dir.join("crustabri");
    let wrapper = ctx.repo_bin_dir.join("crustabri_iccma23");
    let base = |p: &str, a: Option<&str>| -> Vec<String> {
        let mut v: Vec<String> = vec!["solve".into(), "-f".into(), good.clone(), "-p".into(), p.into(), "-r".into(), rdr.into(), "--logging-level".into(), if rng_bool(p) { "off" } else { "info" }.into()];
        if let Some(a) = a {
            v.push("-a".into());
            v.push(a.into());
        }
        v
    };
    fn rng_bool(p: &str) -> bool {
        p.len() % 2 == 0
    }
    let some_arg = inst.names[0].clone();
    let dq = *rng.pick(&["DC", "DS"]);
    let sem = rng.pick(&ALL_SEMS).name();
    let dprob = format!("{}-{}", dq, sem);
    let mut cases: Vec<(&str, Vec<String>)> = Vec::new();
    // missing -f / -p
    cases.push(("missing-f", vec!["solve".into(), "-p".into(), "SE-GR".into()]));
    cases.push(("missing-p", vec!["solve".into(), "-f".into(), good.clone()]));
    // unreadable file, directory
    {
        let mut v = base("SE-GR", None);
        v[2] = dir.join("does-not-exist.af").to_string_lossy().to_string();
        cases.push(("file-not-found", v));
        let mut v = base("SE-CO", None);
        v[2] = dir.to_string_lossy().to_string();
        cases.push(("file-is-a-directory", v));
    }
    // ill-formed file categories
    {
        let (bytes, _cat) = gen_listed_illformed(rng, !inst.apx);
        if let Some(f) = write_file(dir, "bad.txt", &bytes) {
            let mut v = base(&format!("SE-{}", sem), None);
            v[2] = f.to_string_lossy().to_string();
            cases.push(("ill-formed-file", v));
            let mut v = base(&dprob, Some(&some_arg));
            v[2] = f.to_string_lossy().to_string();
            cases.push(("ill-formed-file", v));
        }
    }
    // unknown / garbled problem strings
    for bad in ["SE-", "-ST", "SEST", "DC--CO", "XX-ST", "SE-XX", "SE-CO-", "SE_CO", " SE-GR", "DC-COO", "EE-PR", "DC-CO-x", "SE-ST--", "DS-PR-DS-PR", "se-gr-", "SE-GR "] {
        if rng.pct(45) {
            cases.push(("unknown-problem", base(bad, Some(&some_arg))));
        }
    }
    // DC/DS without -a
    cases.push(("missing-argument", base(&dprob, None)));
    // bad -a
    let bad_args: Vec<String> = if inst.apx {
        vec!["zz_unknown".into(), format!("{}x", some_arg), "1".into(), format!(" {}", some_arg)]
    } else {
        vec!["0".into(), (n + 1).to_string(), "abc".into(), "-1".into(), "1.0".into()]
    };
    for b in bad_args {
        if inst.names.contains(&b) {
            // "<name>x" can be the name of another declared argument: not an unknown argument
            continue;
        }
        cases.push(("unknown-argument", base(&dprob, Some(&b))));
        // an unknown argument is an error whatever the problem (a *valid* superfluous -a for SE is not)
        if rng.pct(50) {
            cases.push(("unknown-argument-with-SE-problem", base(&format!("SE-{}", sem), Some(&b))));
        }
    }
    {
        // empty argument value
        let mut v = base(&dprob, None);
        v.push("-a".into());
        v.push("".into());
        cases.push(("empty-argument", v));
    }
    // unknown option, bad reader, bad encoding
    {
        let mut v = base("SE-PR", None);
        v.push("--no-such-option".into());
        cases.push(("unknown-option", v));
        let mut v = base("SE-PR", None);
        v[6] = "dimacs".into();
        cases.push(("bad-reader", v));
        let mut v = base("SE-PR", None);
        v.push("--encoding".into());
        v.push("magic".into());
        cases.push(("bad-encoding", v));
        let mut v = base("SE-PR", None);
        v[6] = "iccma23_aba".into();
        cases.push(("aba-reader", v));
        let mut v = base("SE-PR", None);
        v[0] = "solv".into();
        cases.push(("unknown-subcommand", v));
        // wrong reader for the file
        let mut v = base(&dprob, Some(&some_arg));
        v[6] = if inst.apx { "iccma23" } else { "apx" }.into();
        cases.push(("wrong-reader-for-file", v));
    }
    for (kind, args) in cases {
        if let Some(out) = run(&crustabri, &args) {
            judge_error(ctx, "crustabri", kind, &args, Some(&inst), &out);
        }
    }
    // the wrapper
    if !inst.apx {
        let mut wcases: Vec<(&str, Vec<String>)> = vec![
            ("missing-p", vec!["-f".into(), good.clone()]),
            ("missing-f", vec!["-p".into(), "SE-GR".into()]),
            ("file-not-found", vec!["-f".into(), dir.join("nope.af").to_string_lossy().to_string(), "-p".into(), "SE-GR".into()]),
            ("unknown-problem", vec!["-f".into(), good.clone(), "-p".into(), "SE-XX".into()]),
            ("unknown-problem", vec!["-f".into(), good.clone(), "-p".into(), "SEST".into()]),
            ("missing-argument", vec!["-f".into(), good.clone(), "-p".into(), dprob.clone()]),
            ("unknown-argument", vec!["-f".into(), good.clone(), "-p".into(), dprob.clone(), "-a".into(), (n + 1).to_string()]),
            ("unknown-argument", vec!["-f".into(), good.clone(), "-p".into(), dprob.clone(), "-a".into(), "0".into()]),
            ("unknown-argument-with-SE-problem", vec!["-f".into(), good.clone(), "-p".into(), format!("SE-{}", sem), "-a".into(), (n + 1).to_string()]),
            ("unknown-problem", vec!["-f".into(), good.clone(), "-p".into(), "DC-CO-x".into(), "-a".into(), "1".into()]),
            ("unknown-option", vec!["-f".into(), good.clone(), "-p".into(), "SE-GR".into(), "--frobnicate".into()]),
        ];
        let (bytes, _) = gen_listed_illformed(rng, true);
        if let Some(f) = write_file(dir, "wbad.af", &bytes) {
            wcases.push(("ill-formed-file", vec!["-f".into(), f.to_string_lossy().to_string(), "-p".into(), "SE-ST".into()]));
        }
        for (kind, args) in wcases {
            if let Some(out) = run(&wrapper, &args) {
                judge_error(ctx, "crustabri_iccma23", kind, &args, Some(&inst), &out);
            }
        }
    }
}

/// Invocations that are documented not to be errors and not to be queries: help, authors, the
/// wrapper without arguments (ICCMA: name, version, authors).  Exit 0, no answer-shaped line.
fn informational_runs(ctx: &mut Ctx) {
    let crustabri = ctx.repo_bin_dir.join("crustabri");
    let wrapper = ctx.repo_bin_dir.join("crustabri_iccma23");
    let runs: Vec<(&str, &std::path::PathBuf, Vec<&str>)> = vec![
        ("crustabri", &crustabri, vec!["-h"]),
        ("crustabri", &crustabri, vec!["--help"]),
        ("crustabri", &crustabri, vec!["help"]),
        ("crustabri", &crustabri, vec!["solve", "-h"]),
        ("crustabri", &crustabri, vec!["help", "solve"]),
        ("crustabri", &crustabri, vec!["check", "--help"]),
        ("crustabri", &crustabri, vec!["authors"]),
        ("crustabri", &crustabri, vec!["authors", "--logging-level", "off"]),
        ("crustabri_iccma23", &wrapper, vec![]),
    ];
    for (bin_name, bin, args) in runs {
        let args: Vec<String> = args.iter().map(|s| s.to_string()).collect();
        let out = match run(bin, &args) {
            Some(o) => o,
            None => return,
        };
        ctx.eval();
        ctx.count("informational_runs");
        let case = invocation_json(bin_name, &args, None);
        let shaped: Vec<&str> = out.stdout.lines().filter(|l| !l.starts_with("![") && answer_shaped(l)).collect();
        if out.code != Some(0) {
            ctx.violation(
                &format!("C05/informational-invocation-fails/{}/{}", bin_name, args.first().map(|s| s.as_str()).unwrap_or("no-argument")),
                json!({"exit": out.code, "stdout": out.stdout.chars().take(400).collect::<String>(), "stderr": out.stderr.chars().take(400).collect::<String>()}),
                &case,
            );
        } else if !shaped.is_empty() {
            ctx.violation(
                &format!("C05/informational-invocation-prints-an-answer/{}", bin_name),
                json!({"answer_shaped_lines": shaped}),
                &case,
            );
        } else if bin_name == "crustabri_iccma23" && !out.stdout.to_lowercase().contains("crustabri") {
            ctx.violation(
                "C05/wrapper-without-arguments-does-not-identify-itself",
                json!({"stdout": out.stdout.chars().take(400).collect::<String>()}),
                &case,
            );
        }
    }
}

fn problems_runs(ctx: &mut Ctx, rng: &mut Rng, dir: &Path) {
    let crustabri = ctx.repo_bin_dir.join("crustabri");
    let wrapper = ctx.repo_bin_dir.join("crustabri_iccma23");
    let tiny = match write_file(dir, "tiny.af", b"p af 2\n1 2\n") {
        Some(f) => f.to_string_lossy().to_string(),
        None => return,
    };
    for (bin_name, bin, args) in [
        ("crustabri", &crustabri, vec!["problems".to_string(), "--logging-level".to_string(), "off".to_string()]),
        ("crustabri_iccma23", &wrapper, vec!["--problems".to_string()]),
    ] {
        let out = match run(bin, &args) {
            Some(o) => o,
            None => return,
        };
        ctx.eval();
        ctx.count("problems_listings_checked");
        let case = invocation_json(bin_name, &args, None);
        let line = out.stdout.lines().find(|l| !l.starts_with("![")).unwrap_or("").to_string();
        let listed: Vec<String> = line
            .trim()
            .strip_prefix('[')
            .and_then(|s| s.strip_suffix(']'))
            .map(|s| s.split(',').map(|x| x.trim().to_string()).collect())
            .unwrap_or_default();
        let mut got = listed.clone();
        got.sort();
        let mut exp = all_problems();
        exp.sort();
        if out.code != Some(0) || got != exp {
            ctx.violation(
                &format!("C05/problems-list/{}", bin_name),
                json!({"exit_status": out.code, "listed": listed, "expected": exp}),
                &case,
            );
            return;
        }
        // every listed problem is accepted in any letter case
        for p in listed.iter() {
            let pc = mix_case(rng, p);
            let mut a: Vec<String> = if bin_name == "crustabri" {
                vec!["solve".into(), "-f".into(), tiny.clone(), "-p".into(), pc.clone(), "--logging-level".into(), "off".into()]
            } else {
                vec!["-f".into(), tiny.clone(), "-p".into(), pc.clone()]
            };
            if !p.starts_with("SE") {
                a.push("-a".into());
                a.push("1".into());
            }
            if let Some(o) = run(bin, &a) {
                ctx.eval();
                ctx.count("listed_problems_tried");
                if o.code != Some(0) {
                    ctx.violation(
                        &format!("C05/listed-problem-rejected/{}/{}", bin_name, p),
                        json!({"problem_as_given": pc, "exit_status": o.code, "stdout": o.stdout}),
                        &invocation_json(bin_name, &a, None),
                    );
                }
            }
        }
        // unlisted strings are rejected; among them strings that only *look* like a listed problem, or become
        // one under a Unicode case mapping or compatibility normalisation (ſ -> S, ı -> I, ß -> SS, ﬆ -> ST,
        // full-width letters, other dashes)
        let mut bads: Vec<String> = ["SE-SS", "DD-CO", "DC-", "SE-STGG", "EE-ID", "DS-IDD", "SE-GRD", "CO-SE"].iter().map(|x| x.to_string()).collect();
        let mut lookalikes: Vec<String> = Vec::new();
        for p in listed.iter() {
            for pl in [p.clone(), p.to_lowercase()] {
                let chars: Vec<char> = pl.chars().collect();
                for (k, c) in chars.iter().enumerate() {
                    let subs: &[&str] = match c {
                        'S' | 's' => &["\u{17f}", "\u{ff33}", "\u{ff53}"],
                        'I' | 'i' => &["\u{131}", "\u{130}", "\u{ff29}"],
                        'D' => &["\u{ff24}"],
                        'C' => &["\u{ff23}", "\u{421}"],
                        'O' => &["\u{ff2f}", "\u{41e}"],
                        'P' => &["\u{ff30}", "\u{420}"],
                        'E' => &["\u{ff25}", "\u{415}"],
                        'T' | 't' => &["\u{ff34}"],
                        'G' | 'R' | 'g' | 'r' => &[],
                        '-' => &["\u{2010}", "\u{2013}", "\u{ff0d}", "_"],
                        _ => &[],
                    };
                    for sub in subs {
                        let mut v: String = chars[..k].iter().collect();
                        v.push_str(sub);
                        v.extend(chars[k + 1..].iter());
                        lookalikes.push(v);
                    }
                }
                for (pair, subs) in [("ST", vec!["\u{fb06}", "\u{fb05}"]), ("st", vec!["\u{fb06}", "\u{fb05}"]), ("SS", vec!["\u{df}", "\u{1e9e}"]), ("ss", vec!["\u{df}"])] {
                    if let Some(pos) = pl.find(pair) {
                        for sub in subs {
                            lookalikes.push(format!("{}{}{}", &pl[..pos], sub, &pl[pos + 2..]));
                        }
                    }
                }
            }
        }
        for _ in 0..14 {
            if !lookalikes.is_empty() {
                bads.push(lookalikes[rng.below(lookalikes.len())].clone());
                ctx.count("error_runs/problem-strings-that-only-look-like-a-listed-one");
            }
        }
        for bad in bads.iter() {
            let bad = bad.as_str();
            let mut a: Vec<String> = if bin_name == "crustabri" {
                vec!["solve".into(), "-f".into(), tiny.clone(), "-p".into(), bad.into(), "--logging-level".into(), "off".into()]
            } else {
                vec!["-f".into(), tiny.clone(), "-p".into(), bad.into()]
            };
            a.push("-a".into());
            a.push("1".into());
            if let Some(o) = run(bin, &a) {
                judge_error(ctx, bin_name, "unlisted-problem", &a, None, &o);
            }
        }
    }
}

/// Answers with thousands of arguments on the witness line (a line of 16-70 KiB): N arguments, all isolated
/// but a chain 1 -> 2 -> 3 -> 4, so that every semantics has the single extension {1..N} \ {2, 4}.
fn big_witness_runs(ctx: &mut Ctx, rng: &mut Rng, dir: &Path) {
    let n = *rng.pick(&[3_000usize, 3_499, 3_500, 4_096, 6_000, 9_000, 13_000]) + rng.below(3);
    let apx = rng.pct(35);
    let name = |k: usize| if apx { format!("a{}", k) } else { k.to_string() };
    let mut text = String::new();
    if apx {
        for k in 1..=n {
            text.push_str(&format!("arg({}).\n", name(k)));
        }
        for k in 1..4 {
            text.push_str(&format!("att({},{}).\n", name(k), name(k + 1)));
        }
    } else {
        text = format!("p af {}\n1 2\n2 3\n3 4\n", n);
    }
    let file = match write_file(dir, if apx { "wide.apx" } else { "wide.af" }, text.as_bytes()) {
        Some(f) => f.to_string_lossy().to_string(),
        None => return,
    };
    let mut expected: Vec<String> = (1..=n).filter(|k| *k != 2 && *k != 4).map(name).collect();
    expected.sort();
    let crustabri = ctx.repo_bin_dir.join("crustabri");
    let wrapper = ctx.repo_bin_dir.join("crustabri_iccma23");
    let probs = ["SE-GR", "SE-CO", "SE-ST", "SE-PR", "DC-CO", "DS-ST", "SE-ID"];
    let p = *rng.pick(&probs);
    let mut runs: Vec<(&str, &std::path::PathBuf, Vec<String>)> = Vec::new();
    let mut a: Vec<String> = vec!["solve".into(), "-f".into(), file.clone(), "-p".into(), p.into(), "--logging-level".into(), "off".into()];
    if apx {
        a.extend(["-r".to_string(), "apx".to_string()]);
    }
    if !p.starts_with("SE") {
        // DC on an accepted argument gives YES + witness; DS on a rejected one gives NO + counter-witness
        a.extend(["-a".to_string(), if p.starts_with("DC") { name(3) } else { name(2) }, "-c".to_string()]);
    }
    runs.push(("crustabri", &crustabri, a));
    if !apx {
        let mut w: Vec<String> = vec!["-f".into(), file.clone(), "-p".into(), p.into()];
        if !p.starts_with("SE") {
            w.extend(["-a".to_string(), if p.starts_with("DC") { name(3) } else { name(2) }]);
        }
        runs.push(("crustabri_iccma23", &wrapper, w));
    }
    for (bin_name, bin, args) in runs {
        let out = match run(bin, &args) {
            Some(o) => o,
            None => return,
        };
        ctx.eval();
        ctx.count("success_runs/witness-line-of-thousands-of-arguments");
        let lines: Vec<&str> = out.stdout.lines().collect();
        let (status_ok, wline) = if p.starts_with("SE") {
            (lines.len() == 1, lines.first().copied())
        } else {
            (lines.len() == 2 && lines[0] == if p.starts_with("DC") { "YES" } else { "NO" }, lines.get(1).copied())
        };
        let mut got = wline.and_then(|l| parse_witness(apx, l));
        if let Some(g) = got.as_mut() {
            g.sort();
        }
        if out.code != Some(0) || !status_ok || got.as_ref() != Some(&expected) {
            let why = match &got {
                None => "witness line does not parse".to_string(),
                Some(g) if *g != expected => {
                    let odd: Vec<&String> = g.iter().filter(|x| expected.binary_search(x).is_err()).take(4).collect();
                    format!("{} arguments printed, {} expected; printed but not in the extension: {:?}", g.len(), expected.len(), odd)
                }
                _ => "status lines / exit status".to_string(),
            };
            ctx.violation(
                &format!("C05/wrong-answer/{}/wide-witness/{}", bin_name, p),
                json!({"arguments": n, "format": if apx { "apx" } else { "iccma23" }, "exit_status": out.code, "why": why,
                       "stdout_head": out.stdout.chars().take(120).collect::<String>(), "stdout_bytes": out.stdout.len()}),
                &json!({"kind": "wide-witness", "bin": bin_name, "args": args, "instance_text_head": text.chars().take(60).collect::<String>(), "n": n, "apx": apx}),
            );
        } else {
            ctx.nontrivial((n as u64) << 8 | (apx as u64) << 4 | probs.iter().position(|x| *x == p).unwrap() as u64);
        }
    }
}

pub fn run_c05(ctx: &mut Ctx) {
    let n: u64 = ctx.tier.pick(256, 8_000);
    let dir = ctx.out_dir.join(format!("c05-files-{}", ctx.shard));
    let _ = std::fs::create_dir_all(&dir);
    for i in 0..n {
        if !ctx.mine(i) {
            continue;
        }
        if ctx.out_of_time() {
            return;
        }
        ctx.case_begin(&json!({"i": i}));
        let mut rng = Rng::from_path(&[ctx.seed, 5, i]);
        if i % 8 == 5 {
            big_witness_runs(ctx, &mut rng, &dir);
        }
        match rng.weighted(&[6, 4, 1]) {
            0 => success_runs(ctx, &mut rng, &dir),
            1 => error_runs(ctx, &mut rng, &dir),
            _ => {
                problems_runs(ctx, &mut rng, &dir);
                if i % 3 == 0 {
                    informational_runs(ctx);
                }
            }
        }
    }
    let _ = std::fs::remove_dir_all(&dir);
    let fired = WATCHDOG_FIRED.with(|w| w.get());
    for _ in 0..fired {
        ctx.inconclusive("cli-run-stopped-by-watchdog");
    }
}

pub fn replay_c05(ctx: &mut Ctx, case: &Value) -> Result<(), String> {
    if case.get("kind").and_then(|k| k.as_str()) == Some("wide-witness") {
        // the instance is a function of (n, format): N arguments, attacks 1 -> 2 -> 3 -> 4
        let n = case.get("n").and_then(|x| x.as_u64()).ok_or("no n")? as usize;
        let apx = case.get("apx").and_then(|x| x.as_bool()).unwrap_or(false);
        let mut text = String::new();
        if apx {
            for k in 1..=n {
                text.push_str(&format!("arg(a{}).\n", k));
            }
            for k in 1..4 {
                text.push_str(&format!("att(a{},a{}).\n", k, k + 1));
            }
        } else {
            text = format!("p af {}\n1 2\n2 3\n3 4\n", n);
        }
        let dir = ctx.out_dir.join("c05-replay");
        let _ = std::fs::create_dir_all(&dir);
        let f = dir.join(if apx { "wide.apx" } else { "wide.af" });
        std::fs::write(&f, text).map_err(|e| e.to_string())?;
        let mut args: Vec<String> = case.get("args").and_then(|a| a.as_array()).ok_or("no args")?.iter().filter_map(|x| x.as_str().map(|s| s.to_string())).collect();
        if let Some(pos) = args.iter().position(|a| a == "-f") {
            args[pos + 1] = f.to_string_lossy().to_string();
        }
        let bin_name = case.get("bin").and_then(|b| b.as_str()).ok_or("no bin")?;
        let out = run(&ctx.repo_bin_dir.join(bin_name), &args).ok_or("cannot run binary")?;
        let expected = (1..=n).filter(|k| *k != 2 && *k != 4).count();
        println!("REPLAY exit_status={:?}\nREPLAY stdout_bytes={} words_on_last_line={} (extension has {} arguments)\nREPLAY stdout_head={:?}",
            out.code, out.stdout.len(), out.stdout.lines().last().map(|l| l.split([' ', ',']).count()).unwrap_or(0), expected, out.stdout.chars().take(160).collect::<String>());
        return Ok(());
    }
    // re-execute the recorded invocation (the instance file is re-created from the recorded bytes)
    let bin_name = case.get("binary").and_then(|b| b.as_str()).ok_or("no binary")?;
    let mut args: Vec<String> = case.get("args").and_then(|a| a.as_array()).ok_or("no args")?.iter().filter_map(|x| x.as_str().map(|s| s.to_string())).collect();
    let dir = ctx.out_dir.join("c05-replay");
    let _ = std::fs::create_dir_all(&dir);
    if let Some(hex) = case.get("file_hex").and_then(|h| h.as_str()) {
        let bytes: Vec<u8> = (0..hex.len() / 2).filter_map(|i| u8::from_str_radix(&hex[2 * i..2 * i + 2], 16).ok()).collect();
        let f = dir.join("replayed-instance");
        std::fs::write(&f, bytes).map_err(|e| e.to_string())?;
        // the recorded path of the *good* instance is replaced; other paths (missing file, directory) are kept
        if let Some(pos) = args.iter().position(|a| a == "-f") {
            if pos + 1 < args.len() && (args[pos + 1].ends_with("/inst.af") || args[pos + 1].ends_with("/inst.apx") || args[pos + 1].ends_with("/ok.af") || args[pos + 1].ends_with("/ok.apx")) {
                args[pos + 1] = f.to_string_lossy().to_string();
            }
        }
    }
    let out = run(&ctx.repo_bin_dir.join(bin_name), &args).ok_or("cannot run binary")?;
    println!("REPLAY exit_status={:?}\nREPLAY stdout={:?}\nREPLAY stderr={:?}", out.code, out.stdout, out.stderr.chars().take(400).collect::<String>());
    println!("REPLAY (the verdict of a C05 case is re-derived by `./check C05 quick`; this prints the transcript)");
    let _ = Tier::Quick;
    Ok(())
}
