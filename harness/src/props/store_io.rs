//! Checks C12 (framework store vs set model), C13 (readers vs reference parsers), C14 (writers).

use crate::present::{HLabel, Op};
use crate::report::{catch, Ctx, Tier};
use crate::rng::{Hasher64, Rng};
use crustabri::aa::{AAFramework, Argument, ArgumentSet};
use crustabri::io::{
    AspartixReader, AspartixWriter, Iccma23Reader, Iccma23Writer, InstanceReader, ResponseWriter,
};
use crustabri::utils::LabelSet;
use serde_json::{json, Value};
use std::collections::{BTreeMap, BTreeSet};
use std::io::Write;

// =============================================================================================
// C12
// =============================================================================================

/// The public observables of a framework, in a canonical form.
#[derive(Clone, Debug, PartialEq, Eq)]
pub struct Obs<T: HLabel> {
    pub n_args: usize,
    pub n_atts: usize,
    pub is_empty: bool,
    /// label -> id, from `argument_set().iter()`
    pub args: Vec<(T, usize)>,
    /// multiset of attacks from `iter_attacks()`
    pub atts: Vec<(T, T)>,
    pub from: BTreeMap<T, Vec<(T, T)>>,
    pub to: BTreeMap<T, Vec<(T, T)>>,
}

pub fn observe<T: HLabel>(af: &AAFramework<T>) -> Obs<T> {
    let mut args: Vec<(T, usize)> = af
        .argument_set()
        .iter()
        .map(|a| (a.label().clone(), a.id()))
        .collect();
    args.sort();
    let mut atts: Vec<(T, T)> = af
        .iter_attacks()
        .map(|a| (a.attacker().label().clone(), a.attacked().label().clone()))
        .collect();
    atts.sort();
    let mut from = BTreeMap::new();
    let mut to = BTreeMap::new();
    for a in af.argument_set().iter() {
        let mut f: Vec<(T, T)> = af
            .iter_attacks_from(a)
            .map(|x| (x.attacker().label().clone(), x.attacked().label().clone()))
            .collect();
        f.sort();
        from.insert(a.label().clone(), f);
        let mut t: Vec<(T, T)> = af
            .iter_attacks_to(a)
            .map(|x| (x.attacker().label().clone(), x.attacked().label().clone()))
            .collect();
        t.sort();
        to.insert(a.label().clone(), t);
    }
    Obs {
        n_args: af.n_arguments(),
        n_atts: af.n_attacks(),
        is_empty: af.argument_set().is_empty(),
        args,
        atts,
        from,
        to,
    }
}

#[derive(Clone, Debug)]
pub struct SetModel<T: HLabel> {
    pub live: BTreeMap<T, usize>,
    pub att: BTreeSet<(T, T)>,
    pub ids_given: BTreeSet<usize>,
    pub ever: BTreeSet<T>,
}

impl<T: HLabel> Default for SetModel<T> {
    fn default() -> Self {
        SetModel {
            live: BTreeMap::new(),
            att: BTreeSet::new(),
            ids_given: BTreeSet::new(),
            ever: BTreeSet::new(),
        }
    }
}

impl<T: HLabel> SetModel<T> {
    pub fn expected_obs(&self) -> Obs<T> {
        let mut args: Vec<(T, usize)> = self.live.iter().map(|(l, i)| (l.clone(), *i)).collect();
        args.sort();
        let atts: Vec<(T, T)> = self.att.iter().cloned().collect();
        let mut from = BTreeMap::new();
        let mut to = BTreeMap::new();
        for l in self.live.keys() {
            from.insert(
                l.clone(),
                self.att.iter().filter(|(a, _)| a == l).cloned().collect(),
            );
            to.insert(
                l.clone(),
                self.att.iter().filter(|(_, b)| b == l).cloned().collect(),
            );
        }
        Obs {
            n_args: self.live.len(),
            n_atts: self.att.len(),
            is_empty: self.live.is_empty(),
            args,
            atts,
            from,
            to,
        }
    }
}

fn diff_obs<T: HLabel>(got: &Obs<T>, exp: &Obs<T>, check_ids: bool) -> Option<String> {
    if got.n_args != exp.n_args {
        return Some(format!("n_arguments {} != {}", got.n_args, exp.n_args));
    }
    if got.n_atts != exp.n_atts {
        return Some(format!("n_attacks {} != {}", got.n_atts, exp.n_atts));
    }
    if got.is_empty != exp.is_empty {
        return Some(format!("is_empty {} != {}", got.is_empty, exp.is_empty));
    }
    let gl: Vec<&T> = got.args.iter().map(|(l, _)| l).collect();
    let el: Vec<&T> = exp.args.iter().map(|(l, _)| l).collect();
    if gl != el {
        return Some(format!("arguments {:?} != {:?}", gl, el));
    }
    if check_ids && got.args != exp.args {
        return Some(format!("argument ids {:?} != {:?}", got.args, exp.args));
    }
    if got.atts != exp.atts {
        return Some(format!("iter_attacks {:?} != {:?}", got.atts, exp.atts));
    }
    if got.from != exp.from {
        return Some(format!("iter_attacks_from {:?} != {:?}", got.from, exp.from));
    }
    if got.to != exp.to {
        return Some(format!("iter_attacks_to {:?} != {:?}", got.to, exp.to));
    }
    None
}

fn gen_store_ops<T: HLabel>(rng: &mut Rng, len: usize) -> Vec<Op<T>> {
    // few labels most of the time (collisions, re-insertions); sometimes a larger universe so that
    // per-argument attack lists grow long (with tombstones left by removed neighbours)
    let k = if len > 100 { rng.range(8, 14) } else { rng.range(3, 6) };
    // one history in sixteen runs over unusual labels (empty / blank / syntax-like / very long strings,
    // 0 and huge numbers): the store accepts any label
    let universe: Vec<T> = if rng.pct(6) { (0..k).map(T::odd).collect() } else { (0..k).map(T::nth).collect() };
    let ghost = T::nth(77);
    let mut ops = Vec::new();
    // a light shadow to bias generation towards interesting states
    let mut live: BTreeSet<T> = BTreeSet::new();
    let mut att: BTreeSet<(T, T)> = BTreeSet::new();
    while ops.len() < len {
        let pick = |rng: &mut Rng| -> T {
            if rng.pct(4) {
                ghost.clone()
            } else {
                universe[rng.below(universe.len())].clone()
            }
        };
        let op = match rng.weighted(&[5, 3, 9, 4, 2, 2]) {
            0 => Op::AddArg(pick(rng)),
            1 => Op::DelArg(pick(rng)),
            2 => {
                let a = pick(rng);
                let b = if rng.pct(25) { a.clone() } else { pick(rng) };
                Op::AddAtt(a, b)
            }
            3 => {
                if !att.is_empty() && rng.pct(75) {
                    let v: Vec<&(T, T)> = att.iter().collect();
                    let (a, b) = (*rng.pick(&v)).clone();
                    Op::DelAtt(a, b)
                } else {
                    Op::DelAtt(pick(rng), pick(rng))
                }
            }
            4 => {
                // the double-tombstone case: remove an argument that has a self-attack
                let v: Vec<T> = live
                    .iter()
                    .filter(|l| att.contains(&((*l).clone(), (*l).clone())))
                    .cloned()
                    .collect();
                if v.is_empty() {
                    continue;
                }
                Op::DelArg(rng.pick(&v).clone())
            }
            _ => {
                // repeat the previous operation (double removal / double insertion)
                match ops.last() {
                    Some(o) => {
                        let o: &Op<T> = o;
                        o.clone()
                    }
                    None => continue,
                }
            }
        };
        match &op {
            Op::AddArg(l) => {
                live.insert(l.clone());
            }
            Op::DelArg(l) => {
                live.remove(l);
                att.retain(|(a, b)| a != l && b != l);
            }
            Op::AddAtt(a, b) => {
                if live.contains(a) && live.contains(b) {
                    att.insert((a.clone(), b.clone()));
                }
            }
            Op::DelAtt(a, b) => {
                att.remove(&(a.clone(), b.clone()));
            }
        }
        ops.push(op);
    }
    ops
}

/// Hub shape: one long-lived argument keeps attacking neighbours that are removed and re-added,
/// so that its attack lists accumulate tombstones; redundant insertions and removals of the hub's
/// attacks are frequent.
fn gen_store_ops_hub<T: HLabel>(rng: &mut Rng, len: usize) -> Vec<Op<T>> {
    let k = rng.range(5, 10);
    let universe: Vec<T> = (0..k).map(T::nth).collect();
    let hub = universe[0].clone();
    let mut ops = vec![Op::AddArg(hub.clone())];
    while ops.len() < len {
        let x = universe[rng.range(1, k - 1)].clone();
        let op = match rng.weighted(&[5, 4, 8, 2, 3, 3, 2]) {
            0 => Op::AddArg(x),
            1 => Op::DelArg(x),
            2 => Op::AddAtt(hub.clone(), x),
            3 => Op::AddAtt(x, hub.clone()),
            4 => Op::DelAtt(hub.clone(), x),
            5 => {
                let y = universe[rng.below(k)].clone();
                Op::AddAtt(x, y)
            }
            _ => match ops.last() {
                Some(o) => {
                    let o: &Op<T> = o;
                    o.clone()
                }
                None => continue,
            },
        };
        ops.push(op);
    }
    ops
}

/// Wide hub: 34-90 arguments (ids pass 64 and, with re-declarations, 128), one of them attacking and being
/// attacked by most of the others (out- and in-lists of 16, 32, 64 and more entries, dead ones included), then
/// single attacks of the hub withdrawn and put back, targets withdrawn and declared again, redundant insertions.
fn gen_store_ops_wide_hub<T: HLabel>(rng: &mut Rng) -> Vec<Op<T>> {
    let k = rng.range(34, 90);
    let universe: Vec<T> = (0..k).map(T::nth).collect();
    let hub = universe[rng.below(k)].clone();
    let mut ops: Vec<Op<T>> = universe.iter().cloned().map(Op::AddArg).collect();
    let mut order: Vec<usize> = (0..k).collect();
    rng.shuffle(&mut order);
    let width = rng.range(14, k);
    for &j in order.iter().take(width) {
        ops.push(Op::AddAtt(hub.clone(), universe[j].clone()));
        if rng.pct(30) {
            ops.push(Op::AddAtt(universe[j].clone(), hub.clone()));
        }
    }
    let steps = rng.range(60, 260);
    for _ in 0..steps {
        let x = universe[rng.below(k)].clone();
        match rng.weighted(&[6, 3, 3, 2, 2, 1]) {
            0 => {
                ops.push(Op::DelAtt(hub.clone(), x.clone()));
                if rng.pct(70) {
                    ops.push(Op::AddAtt(hub.clone(), x));
                }
            }
            1 => ops.push(Op::AddAtt(hub.clone(), x)),
            2 => {
                ops.push(Op::DelArg(x.clone()));
                if rng.pct(80) {
                    ops.push(Op::AddArg(x.clone()));
                    ops.push(Op::AddAtt(hub.clone(), x));
                }
            }
            3 => ops.push(Op::AddAtt(x, hub.clone())),
            4 => ops.push(Op::DelAtt(x, hub.clone())),
            _ => {
                let y = universe[rng.below(k)].clone();
                ops.push(Op::AddAtt(x, y));
            }
        }
    }
    ops
}

/// Attack churn: 300-1500 operations, four in five of them attack insertions and removals over
/// 12-30 long-lived arguments, so that hundreds of attack slots are created and tombstoned (any
/// compaction / re-indexing threshold inside the store is crossed, by either kind of removal).
fn gen_store_ops_churn<T: HLabel>(rng: &mut Rng) -> Vec<Op<T>> {
    let k = rng.range(12, 30);
    let universe: Vec<T> = (0..k).map(T::nth).collect();
    let mut ops: Vec<Op<T>> = universe.iter().cloned().map(Op::AddArg).collect();
    let len = rng.range(300, 1500);
    let mut att: Vec<(T, T)> = Vec::new();
    // phases: mostly inserting, then mostly removing, repeated
    let mut inserting = true;
    while ops.len() < len {
        if rng.pct(1) {
            inserting = !inserting;
        }
        let w: [usize; 4] = if inserting { [12, 3, 1, 1] } else { [3, 12, 1, 1] };
        match rng.weighted(&w) {
            0 => {
                let a = universe[rng.below(k)].clone();
                let b = universe[rng.below(k)].clone();
                if !att.contains(&(a.clone(), b.clone())) {
                    att.push((a.clone(), b.clone()));
                }
                ops.push(Op::AddAtt(a, b));
            }
            1 => {
                if att.is_empty() {
                    inserting = true;
                    continue;
                }
                let i = rng.below(att.len());
                let (a, b) = att.swap_remove(i);
                ops.push(Op::DelAtt(a, b));
            }
            2 => {
                let x = universe[rng.below(k)].clone();
                att.retain(|(a, b)| *a != x && *b != x);
                ops.push(Op::DelArg(x.clone()));
                ops.push(Op::AddArg(x));
            }
            _ => {
                if let Some(o) = ops.last() {
                    let o: Op<T> = o.clone();
                    ops.push(o);
                }
            }
        }
        if att.len() > 3 * k * k / 4 {
            inserting = false;
        }
    }
    ops
}

/// Argument churn: 200-600 operations, most of them creating and removing arguments (dozens of
/// removals, ids growing far beyond the number of live arguments), a few attacks among the survivors.
fn gen_store_ops_arg_churn<T: HLabel>(rng: &mut Rng) -> Vec<Op<T>> {
    let len = rng.range(200, 600);
    let mut next = 0usize;
    let mut live: Vec<T> = Vec::new();
    let mut gone: Vec<T> = Vec::new();
    let mut ops: Vec<Op<T>> = Vec::new();
    while ops.len() < len {
        match rng.weighted(&[9, 9, 3, 1]) {
            0 => {
                let l = if !gone.is_empty() && rng.pct(30) {
                    let i = rng.below(gone.len());
                    gone.swap_remove(i)
                } else {
                    next += 1;
                    T::nth(next - 1)
                };
                if !live.contains(&l) {
                    live.push(l.clone());
                }
                ops.push(Op::AddArg(l));
            }
            1 => {
                if live.len() <= 2 {
                    continue;
                }
                // mostly the oldest survivors go, so that live arguments have larger ids than removed ones
                let i = if rng.pct(70) { rng.below(live.len().min(3)) } else { rng.below(live.len()) };
                let l = live.remove(i);
                gone.push(l.clone());
                ops.push(Op::DelArg(l));
            }
            2 => {
                if live.is_empty() {
                    continue;
                }
                let a = live[rng.below(live.len())].clone();
                let b = live[rng.below(live.len())].clone();
                ops.push(Op::AddAtt(a, b));
            }
            _ => {
                if live.is_empty() {
                    continue;
                }
                let a = live[rng.below(live.len())].clone();
                let b = live[rng.below(live.len())].clone();
                ops.push(Op::DelAtt(a, b));
            }
        }
    }
    ops
}

fn gen_store_history<T: HLabel>(ctx: &mut Ctx, rng: &mut Rng, len: usize, hub: bool, churn: bool, start: u8) -> Vec<Op<T>> {
    let mut ops = if churn && rng.pct(40) {
        ctx.count("histories/argument-churn-shape");
        gen_store_ops_arg_churn::<T>(rng)
    } else if hub && rng.pct(25) {
        ctx.count("histories/wide-hub-shape");
        gen_store_ops_wide_hub::<T>(rng)
    } else if hub {
        ctx.count("histories/hub-shape");
        gen_store_ops_hub::<T>(rng, len.max(80))
    } else if churn {
        ctx.count("histories/attack-churn-shape");
        gen_store_ops_churn::<T>(rng)
    } else {
        gen_store_ops::<T>(rng, len)
    };
    if start == 2 {
        // a text prefix: arguments nth(0..m) and up to 2m distinct attacks among them, then the history
        let m = rng.range(1, 8);
        let mut prefix: Vec<Op<T>> = (0..m).map(|k| Op::AddArg(T::nth(k))).collect();
        for _ in 0..rng.range(0, 2 * m) {
            prefix.push(Op::AddAtt(T::nth(rng.below(m)), T::nth(rng.below(m))));
        }
        prefix.append(&mut ops);
        ops = prefix;
    }
    if start == 3 {
        // declarations and withdrawals on the bare argument set: m arguments, some of them (anywhere in the
        // order) withdrawn, some declared again
        let m = rng.range(1, 9);
        let mut prefix: Vec<Op<T>> = (0..m).map(|k| Op::AddArg(T::nth(k))).collect();
        for k in 0..m {
            if rng.pct(35) {
                prefix.push(Op::DelArg(T::nth(k)));
                if rng.pct(25) {
                    prefix.push(Op::AddArg(T::nth(k)));
                }
            }
        }
        if rng.pct(15) {
            prefix.push(Op::DelArg(T::nth(m + 3)));
        }
        // the first operation on the framework is an attack among the survivors when there is one
        prefix.push(Op::AddAtt(T::nth(rng.below(m)), T::nth(rng.below(m))));
        prefix.append(&mut ops);
        ops = prefix;
    }
    ops
}

/// Drives one store history; returns Some((signature, detail)) on the first disagreement.
fn judge_store<T: HLabel>(ops: &[Op<T>], nwl: u8, ctx: Option<&mut Ctx>) -> Option<(String, Value)> {
    let mut counts: Vec<String> = Vec::new();
    let r = judge_store_inner(ops, nwl, &mut counts);
    if let Some(c) = ctx {
        c.evals_by(ops.len() as u64);
        for k in counts {
            c.count(&k);
        }
    }
    r
}

fn judge_store_inner<T: HLabel>(ops: &[Op<T>], nwl: u8, counts: &mut Vec<String>) -> Option<(String, Value)> {
    let mut model: SetModel<T> = SetModel::default();
    let mut start = 0;
    let mut af: AAFramework<T> = if nwl == 2 {
        // the framework starts its life in a reader: arguments nth(0..m) and a duplicate-free list of
        // attacks are written as a text (ICCMA'23 for usize labels, Aspartix for strings) and read
        let mut m = 0usize;
        while start < ops.len() {
            match &ops[start] {
                Op::AddArg(l) if *l == T::nth(m) => {
                    m += 1;
                    start += 1;
                }
                _ => break,
            }
        }
        let mut atts: Vec<(T, T)> = Vec::new();
        while start < ops.len() {
            match &ops[start] {
                Op::AddAtt(a, b)
                    if (0..m).any(|k| T::nth(k) == *a) && (0..m).any(|k| T::nth(k) == *b) && !atts.contains(&(a.clone(), b.clone())) =>
                {
                    atts.push((a.clone(), b.clone()));
                    start += 1;
                }
                _ => break,
            }
        }
        match catch(|| T::via_reader(m, &atts)) {
            Ok(Ok(af)) => {
                for k in 0..m {
                    let l = T::nth(k);
                    let id = model.ids_given.len();
                    model.live.insert(l.clone(), id);
                    model.ids_given.insert(id);
                    model.ever.insert(l);
                }
                for (a, b) in atts.iter() {
                    model.att.insert((a.clone(), b.clone()));
                }
                counts.push("histories/starting-from-a-text-reader".to_string());
                af
            }
            Ok(Err(e)) => return Some(("C12/reader-rejected-a-well-formed-text".to_string(), json!({"error": e}))),
            Err(p) => return Some((format!("C12/panic/reader/{}", p.site()), p.to_json())),
        }
    } else if nwl == 3 {
        // the argument set has a life of its own (declarations and withdrawals, not only of the most recent
        // arguments) before a framework is built around it
        let mut set: ArgumentSet<T> = ArgumentSet::new_with_labels(&[]);
        while start < ops.len() {
            match &ops[start] {
                Op::AddArg(l) => {
                    set.new_argument(l.clone());
                    if !model.live.contains_key(l) {
                        let id = match set.get_argument(l) {
                            Ok(a) => a.id(),
                            Err(_) => return Some(("C12/new-argument-not-found".to_string(), json!({"step": start, "op": ops[start].to_json(), "on": "ArgumentSet"}))),
                        };
                        if model.ids_given.contains(&id) {
                            return Some(("C12/id-reused".to_string(), json!({"step": start, "op": ops[start].to_json(), "id": id, "on": "ArgumentSet"})));
                        }
                        model.live.insert(l.clone(), id);
                        model.ids_given.insert(id);
                        model.ever.insert(l.clone());
                    }
                }
                Op::DelArg(l) => {
                    let r = set.remove_argument(l);
                    if r.is_ok() != model.live.contains_key(l) {
                        return Some((
                            format!("C12/{}/-arg", if r.is_ok() { "invalid-update-accepted" } else { "update-rejected" }),
                            json!({"step": start, "op": ops[start].to_json(), "on": "ArgumentSet"}),
                        ));
                    }
                    model.live.remove(l);
                }
                _ => break,
            }
            start += 1;
        }
        counts.push("histories/argument-set-with-a-history-of-its-own-wrapped".to_string());
        if model.live.values().max().map(|m| m + 1 != model.ids_given.len()).unwrap_or(!model.ids_given.is_empty()) {
            counts.push("histories/argument-set-wrapped-after-its-latest-arguments-were-removed".to_string());
        }
        match catch(|| AAFramework::new_with_argument_set(set)) {
            Ok(af) => af,
            Err(p) => return Some((format!("C12/panic/new_with_argument_set/{}", p.site()), p.to_json())),
        }
    } else if nwl == 1 {
        let mut init: Vec<T> = Vec::new();
        while start < ops.len() {
            if let Op::AddArg(l) = &ops[start] {
                init.push(l.clone());
                start += 1;
            } else {
                break;
            }
        }
        let r = catch(|| AAFramework::new_with_argument_set(ArgumentSet::new_with_labels(&init)));
        match r {
            Ok(af) => {
                for l in init.iter() {
                    if !model.live.contains_key(l) {
                        let id = model.ids_given.len();
                        model.live.insert(l.clone(), id);
                        model.ids_given.insert(id);
                        model.ever.insert(l.clone());
                    }
                }
                af
            }
            Err(p) => {
                return Some((
                    format!("C12/panic/new_with_labels/{}", p.site()),
                    p.to_json(),
                ))
            }
        }
    } else {
        AAFramework::new_with_argument_set(ArgumentSet::new_with_labels(&[]))
    };
    // ids of the initial arguments must be the ones the model gave
    for (step, op) in ops.iter().enumerate().skip(start) {
        let before = match catch(|| observe(&af)) {
            Ok(o) => o,
            Err(p) => return Some((format!("C12/panic/observe/{}", p.site()), p.to_json())),
        };
        // specified effect
        #[derive(PartialEq, Debug)]
        enum Class {
            Valid,
            Redundant,
            Invalid,
        }
        let class = match op {
            Op::AddArg(l) => {
                if model.live.contains_key(l) {
                    Class::Redundant
                } else {
                    Class::Valid
                }
            }
            Op::DelArg(l) => {
                if model.live.contains_key(l) {
                    Class::Valid
                } else {
                    Class::Invalid
                }
            }
            Op::AddAtt(a, b) => {
                if !model.live.contains_key(a) || !model.live.contains_key(b) {
                    Class::Invalid
                } else if model.att.contains(&(a.clone(), b.clone())) {
                    Class::Redundant
                } else {
                    Class::Valid
                }
            }
            Op::DelAtt(a, b) => {
                if model.att.contains(&(a.clone(), b.clone())) {
                    Class::Valid
                } else {
                    Class::Invalid
                }
            }
        };
        counts.push(format!("ops/{}/{:?}", op.kind(), class));
        if let Op::DelArg(l) = op {
            if class == Class::Valid
                && model.att.contains(&(l.clone(), l.clone()))
                && model.att.iter().any(|(a, b)| a == l && b != l)
                && model.att.iter().any(|(a, b)| b == l && a != l)
            {
                counts.push("coverage/removed-argument-with-self-in-and-out-attacks".to_string());
            }
        }
        if let Op::AddArg(l) = op {
            if class == Class::Valid && model.ever.contains(l) {
                counts.push("coverage/re-inserted-label".to_string());
            }
        }
        let res = catch(|| match op {
            Op::AddArg(l) => {
                af.new_argument(l.clone());
                Ok(())
            }
            Op::DelArg(l) => af.remove_argument(l).map_err(|e| format!("{:#}", e)),
            Op::AddAtt(a, b) => af.new_attack(a, b).map_err(|e| format!("{:#}", e)),
            Op::DelAtt(a, b) => af.remove_attack(a, b).map_err(|e| format!("{:#}", e)),
        });
        let opj = op.to_json();
        let res = match res {
            Ok(r) => r,
            Err(p) => {
                return Some((
                    format!("C12/panic/{}/{}", op.kind(), p.site()),
                    json!({"step": step, "op": opj, "panic": p.to_json()}),
                ))
            }
        };
        let want_ok = class != Class::Invalid;
        if res.is_ok() != want_ok {
            return Some((
                format!(
                    "C12/{}/{}",
                    if want_ok { "update-rejected" } else { "invalid-update-accepted" },
                    op.kind()
                ),
                json!({"step": step, "op": opj, "class": format!("{:?}", class)}),
            ));
        }
        if class == Class::Valid {
            match op {
                Op::AddArg(l) => {
                    // the id is observed, then checked for freshness
                    let id = match af.argument_set().get_argument(l) {
                        Ok(a) => a.id(),
                        Err(_) => {
                            return Some((
                                "C12/new-argument-not-found".to_string(),
                                json!({"step": step, "op": opj}),
                            ))
                        }
                    };
                    if model.ids_given.contains(&id) {
                        return Some((
                            "C12/id-reused".to_string(),
                            json!({"step": step, "op": opj, "id": id}),
                        ));
                    }
                    model.ids_given.insert(id);
                    model.live.insert(l.clone(), id);
                    model.ever.insert(l.clone());
                }
                Op::DelArg(l) => {
                    model.live.remove(l);
                    model.att.retain(|(a, b)| a != l && b != l);
                }
                Op::AddAtt(a, b) => {
                    model.att.insert((a.clone(), b.clone()));
                }
                Op::DelAtt(a, b) => {
                    model.att.remove(&(a.clone(), b.clone()));
                }
            }
        }
        let after = match catch(|| observe(&af)) {
            Ok(o) => o,
            Err(p) => {
                return Some((
                    format!("C12/panic/observe-after-{}/{}", op.kind(), p.site()),
                    json!({"step": step, "op": opj, "panic": p.to_json()}),
                ))
            }
        };
        if class != Class::Valid && after != before {
            return Some((
                format!(
                    "C12/{}-update-changed-the-framework/{}",
                    if class == Class::Invalid { "invalid" } else { "redundant" },
                    op.kind()
                ),
                json!({"step": step, "op": opj, "difference": diff_obs(&after, &before, true)}),
            ));
        }
        if let Some(d) = diff_obs(&after, &model.expected_obs(), true) {
            return Some((
                format!("C12/observables-differ-from-set-model/after-{}", op.kind()),
                json!({"step": step, "op": opj, "difference": d}),
            ));
        }
        // a derived observer of the same store: the grounded extension (least fixed point of the
        // characteristic function) is a function of the exposed arguments and attacks alone
        if step % 2 == 0 || matches!(op, Op::DelAtt(..) | Op::DelArg(..)) {
            let mut inn: BTreeSet<T> = BTreeSet::new();
            let mut out: BTreeSet<T> = BTreeSet::new();
            loop {
                let mut changed = false;
                for l in model.live.keys() {
                    if inn.contains(l) || out.contains(l) {
                        continue;
                    }
                    if model.att.iter().filter(|(_, b)| b == l).all(|(a, _)| out.contains(a)) {
                        inn.insert(l.clone());
                        for (a, b) in model.att.iter() {
                            if a == l {
                                out.insert(b.clone());
                            }
                        }
                        changed = true;
                    }
                }
                if !changed {
                    break;
                }
            }
            match catch(|| af.grounded_extension().iter().map(|a| a.label().clone()).collect::<Vec<T>>()) {
                Ok(g) => {
                    let gs: BTreeSet<T> = g.iter().cloned().collect();
                    if gs != inn || gs.len() != g.len() {
                        return Some((
                            "C12/grounded-extension-differs-from-the-one-of-the-exposed-framework".to_string(),
                            json!({"step": step, "op": opj, "got": g.iter().map(|l| l.to_json()).collect::<Vec<_>>(),
                                   "expected": inn.iter().map(|l| l.to_json()).collect::<Vec<_>>()}),
                        ));
                    }
                    counts.push("grounded_extensions_compared".to_string());
                }
                Err(p) => return Some((format!("C12/panic/grounded_extension/{}", p.site()), json!({"step": step, "op": opj, "panic": p.to_json()}))),
            }
        }
        // point lookups
        for (l, id) in model.live.iter() {
            match af.argument_set().get_argument(l) {
                Ok(a) if a.id() == *id && a.label() == l => {}
                _ => {
                    return Some((
                        "C12/get_argument-disagrees".to_string(),
                        json!({"step": step, "op": opj, "label": l.to_json()}),
                    ))
                }
            }
        }
        for l in model.ever.iter() {
            if !model.live.contains_key(l) && af.argument_set().get_argument(l).is_ok() {
                return Some((
                    "C12/get_argument-finds-removed-argument".to_string(),
                    json!({"step": step, "op": opj, "label": l.to_json()}),
                ));
            }
        }
        let live_ids: BTreeSet<usize> = model.live.values().copied().collect();
        let top = model.ids_given.iter().max().map(|m| m + 3).unwrap_or(3);
        for id in 0..top {
            if af.argument_set().has_argument_with_id(id) != live_ids.contains(&id) {
                return Some((
                    "C12/has_argument_with_id-disagrees".to_string(),
                    json!({"step": step, "op": opj, "id": id}),
                ));
            }
        }
        // documented: "the maximal argument id given so far" (removed arguments included), the same
        // through the framework and through its argument set
        {
            let given = model.ids_given.iter().max().copied();
            let a = af.max_argument_id();
            let b = af.argument_set().max_id();
            if a != given || b != given {
                return Some((
                    "C12/max-id-is-not-the-maximal-id-given-so-far".to_string(),
                    json!({"step": step, "op": opj, "framework_max_argument_id": a, "argument_set_max_id": b, "maximal_id_given": given}),
                ));
            }
        }
        if let Some(m) = live_ids.iter().max() {
            match af.max_argument_id() {
                Some(x) if x >= *m => {}
                other => {
                    return Some((
                        "C12/max_argument_id-below-a-live-id".to_string(),
                        json!({"step": step, "op": opj, "max_argument_id": other, "live_max": m}),
                    ))
                }
            }
        }
    }
    None
}

fn store_case_json<T: HLabel>(ops: &[Op<T>], nwl: u8) -> Value {
    json!({"label_type": T::KIND, "nwl": nwl == 1, "start": nwl, "ops": ops.iter().map(|o| o.to_json()).collect::<Vec<_>>()})
}

fn shrink_store<T: HLabel>(ops: &[Op<T>], nwl: u8, sig: &str) -> Vec<Op<T>> {
    let mut cur = ops.to_vec();
    let mut budget = 3000;
    loop {
        let mut progressed = false;
        let mut i = cur.len();
        while i > 0 && budget > 0 {
            i -= 1;
            budget -= 1;
            let mut cand = cur.clone();
            cand.remove(i);
            if judge_store(&cand, nwl, None).map(|(s, _)| s == sig).unwrap_or(false) {
                cur = cand;
                progressed = true;
            }
        }
        if !progressed || budget == 0 {
            break;
        }
    }
    cur
}

fn eval_store<T: HLabel>(ctx: &mut Ctx, ops: &[Op<T>], nwl: u8) {
    if let Some((sig, detail)) = judge_store(ops, nwl, Some(ctx)) {
        let small = if ctx.replay_mode { ops.to_vec() } else { shrink_store(ops, nwl, &sig) };
        let d = judge_store(&small, nwl, None).map(|(_, d)| d).unwrap_or(detail);
        ctx.violation(&sig, d, &store_case_json(&small, nwl));
        return;
    }
    let mut h = Hasher64::new();
    h.str(&serde_json::to_string(&store_case_json(ops, nwl)).unwrap());
    // non-trivial: at least one removal and one re-insertion or invalid operation
    let has_del = ops.iter().any(|o| matches!(o, Op::DelArg(_) | Op::DelAtt(..)));
    if has_del {
        ctx.nontrivial(h.finish());
    }
    ctx.sample(&format!("store/{}", T::KIND), || store_case_json(ops, nwl));
}

/// LabelSet driven directly.
fn eval_labelset<T: HLabel>(ctx: &mut Ctx, rng: &mut Rng, len: usize) {
    let k = rng.range(2, 5);
    let universe: Vec<T> = (0..k).map(T::nth).collect();
    let mut ls: LabelSet<T> = LabelSet::new_with_labels(&[]);
    let mut model: BTreeMap<T, usize> = BTreeMap::new();
    let mut given: BTreeSet<usize> = BTreeSet::new();
    let mut trace: Vec<Value> = Vec::new();
    for _ in 0..len {
        ctx.eval();
        let l = universe[rng.below(k)].clone();
        let add = rng.pct(55);
        trace.push(json!([if add { "+label" } else { "-label" }, l.to_json()]));
        let case = json!({"label_type": T::KIND, "labelset_ops": trace});
        if add {
            let r = catch(|| ls.new_label(l.clone()));
            if let Err(p) = r {
                ctx.violation(&format!("C12/panic/LabelSet-new_label/{}", p.site()), p.to_json(), &case);
                return;
            }
            if !model.contains_key(&l) {
                let id = match ls.get_label(&l) {
                    Ok(x) => x.id(),
                    Err(_) => {
                        ctx.violation("C12/LabelSet/new-label-not-found", json!({}), &case);
                        return;
                    }
                };
                if given.contains(&id) {
                    ctx.violation("C12/LabelSet/id-reused", json!({"id": id}), &case);
                    return;
                }
                given.insert(id);
                model.insert(l.clone(), id);
            }
        } else {
            let r = catch(|| ls.remove_label(&l).map(|x| x.id()).map_err(|e| format!("{:#}", e)));
            match r {
                Err(p) => {
                    ctx.violation(&format!("C12/panic/LabelSet-remove_label/{}", p.site()), p.to_json(), &case);
                    return;
                }
                Ok(res) => {
                    let want = model.remove(&l);
                    if res.as_ref().ok().copied() != want {
                        ctx.violation(
                            "C12/LabelSet/remove_label-result",
                            json!({"returned": format!("{:?}", res), "expected_id": want}),
                            &case,
                        );
                        return;
                    }
                }
            }
        }
        let mut got: Vec<(T, usize)> = ls.iter().map(|x| (x.label().clone(), x.id())).collect();
        got.sort();
        let exp: Vec<(T, usize)> = model.iter().map(|(l, i)| (l.clone(), *i)).collect();
        if got != exp || ls.len() != model.len() || ls.is_empty() != model.is_empty() {
            ctx.violation(
                "C12/LabelSet/observables-differ-from-set-model",
                json!({"iter": format!("{:?}", got), "expected": format!("{:?}", exp), "len": ls.len()}),
                &case,
            );
            return;
        }
    }
}

pub fn run_c12(ctx: &mut Ctx) {
    let n: u64 = ctx.tier.pick(400_000, 6_000_000);
    for i in 0..n {
        if !ctx.mine(i) {
            continue;
        }
        if ctx.out_of_time() {
            return;
        }
        let mut rng = Rng::from_path(&[ctx.seed, 12, i]);
        let len = if ctx.tier == Tier::Thorough && i % 500 == 0 {
            2000
        } else if rng.pct(6) {
            rng.range(150, 400)
        } else {
            rng.range(5, 60)
        };
        if i % 256 == 0 {
            ctx.case_begin(&json!({"i": i}));
        }
        let nwl: u8 = match rng.below(100) {
            0..=24 => 1,
            25..=39 => 2,
            40..=49 => 3,
            _ => 0,
        };
        let kind = rng.below(8);
        let hub = rng.pct(10);
        let churn = !hub && rng.pct(if ctx.tier == Tier::Thorough { 3 } else { 1 });
        crate::report::guarded(ctx, |ctx| match kind {
            0 => eval_labelset::<usize>(ctx, &mut rng, len),
            1 => eval_labelset::<String>(ctx, &mut rng, len),
            k if k % 2 == 0 => {
                let ops = gen_store_history::<usize>(ctx, &mut rng, len, hub, churn, nwl);
                eval_store(ctx, &ops, nwl);
            }
            _ => {
                let ops = gen_store_history::<String>(ctx, &mut rng, len, hub, churn, nwl);
                eval_store(ctx, &ops, nwl);
            }
        });
    }
}

pub fn replay_c12(ctx: &mut Ctx, case: &Value) -> Result<(), String> {
    let nwl: u8 = match case.get("start").and_then(|x| x.as_u64()) {
        Some(s) => s as u8,
        None => u8::from(case.get("nwl").and_then(|x| x.as_bool()).unwrap_or(false)),
    };
    let ops = case.get("ops").and_then(|x| x.as_array()).ok_or("no ops (LabelSet cases are not replayable from file)")?;
    match case.get("label_type").and_then(|x| x.as_str()) {
        Some("usize") => {
            let ops: Vec<Op<usize>> = ops.iter().map(Op::from_json).collect::<Option<Vec<_>>>().ok_or("bad ops")?;
            eval_store(ctx, &ops, nwl);
        }
        Some("string") => {
            let ops: Vec<Op<String>> = ops.iter().map(Op::from_json).collect::<Option<Vec<_>>>().ok_or("bad ops")?;
            eval_store(ctx, &ops, nwl);
        }
        _ => return Err("bad label type".to_string()),
    }
    Ok(())
}

// =============================================================================================
// C13: reference parsers
// =============================================================================================

#[derive(Clone, Debug, PartialEq, Eq)]
pub enum RefParse {
    /// (argument names in declaration order, attack list as index pairs with duplicates)
    Ok(Vec<String>, Vec<(usize, usize)>),
    /// Ill-formed in a way the property lists.
    Listed(&'static str),
    /// Rejected by the strict reference for a reason the property does not list.
    Unlisted(&'static str),
    /// Declared size too large for this check.
    TooBig,
}

pub const MAX_DECLARED: usize = 100_000;

fn lines_of(bytes: &[u8]) -> Option<Vec<String>> {
    // the same line discipline as a text reader: UTF-8, split at \n, one trailing \r dropped
    let s = std::str::from_utf8(bytes).ok()?;
    let mut v: Vec<String> = s.split('\n').map(|l| l.to_string()).collect();
    let n = v.len();
    // a carriage return belongs to the line terminator only when a line feed follows it
    for l in v.iter_mut().take(n - 1) {
        if l.ends_with('\r') {
            l.pop();
        }
    }
    if v.last().map(|l| l.is_empty()).unwrap_or(false) {
        v.pop(); // the final newline does not start a new line
    }
    Some(v)
}

fn strict_uint(w: &str) -> Option<usize> {
    if w.is_empty() || !w.bytes().all(|b| b.is_ascii_digit()) || w.len() > 9 {
        return None;
    }
    w.parse().ok()
}

/// Does any line, however liberally it is split, declare more arguments than this check allocates?
/// (The strict parser below may give up on a text for another reason before it looks at the number.)
fn declares_too_big(bytes: &[u8]) -> bool {
    let text = String::from_utf8_lossy(bytes);
    // (lines end at \n only: a lone \r is just white space to a liberal splitter)
    text.split('\n').any(|l| {
        let w: Vec<&str> = l.split_whitespace().collect();
        w.len() >= 3 && w[0] == "p" && w[1] == "af" && {
            let t = w[2].trim_start_matches(['+', '-']);
            !t.is_empty() && t.bytes().all(|b| b.is_ascii_digit()) && (t.trim_start_matches('0').len() > 9 || t.parse::<usize>().map(|k| k > MAX_DECLARED).unwrap_or(true))
        }
    })
}

pub fn ref_parse_iccma(bytes: &[u8]) -> RefParse {
    if declares_too_big(bytes) {
        return RefParse::TooBig;
    }
    if std::str::from_utf8(bytes).is_err() {
        // undecodable bytes cannot be part of a well-formed file.  Decoded lossily they become
        // garbage characters: if they sit in a header or attack line that line is ill-formed in a
        // listed way (bad header / not an index) and the file must be rejected; if they only sit
        // in comments the status of the file is left open.
        let lossy = String::from_utf8_lossy(bytes).to_string();
        return match ref_parse_iccma(lossy.as_bytes()) {
            RefParse::Listed(c) => RefParse::Listed(c),
            RefParse::TooBig => RefParse::TooBig,
            _ => RefParse::Unlisted("not-utf8"),
        };
    }
    let lines = match lines_of(bytes) {
        Some(l) => l,
        None => return RefParse::Unlisted("not-utf8"),
    };
    let mut n: Option<usize> = None;
    let mut atts = Vec::new();
    let mut blank_seen = false;
    for l in lines.iter() {
        if l.starts_with('#') {
            if blank_seen {
                return RefParse::Unlisted("comment-after-blank-line");
            }
            continue;
        }
        if l.is_empty() {
            blank_seen = true;
            continue;
        }
        if blank_seen {
            return RefParse::Listed("content-after-blank-line");
        }
        // only plain spaces and tabs separate words in the strict grammar
        if l.chars().any(|c| c.is_whitespace() && c != ' ' && c != '\t') {
            return RefParse::Unlisted("exotic-whitespace");
        }
        let words: Vec<&str> = l.split([' ', '\t']).filter(|w| !w.is_empty()).collect();
        if words.is_empty() {
            return RefParse::Unlisted("whitespace-only-line");
        }
        match n {
            None => {
                if words.len() != 3 || words[0] != "p" || words[1] != "af" {
                    return RefParse::Listed("bad-header");
                }
                match strict_uint(words[2]) {
                    Some(k) => {
                        if k > MAX_DECLARED {
                            return RefParse::TooBig;
                        }
                        n = Some(k)
                    }
                    None => {
                        // a huge but well-formed number is "too big", anything else a bad header
                        if !words[2].is_empty() && words[2].bytes().all(|b| b.is_ascii_digit()) {
                            return RefParse::TooBig;
                        }
                        // signs are accepted by the implementation's integer parser: unlisted
                        let t = words[2].trim_start_matches(['+', '-']);
                        if !t.is_empty() && t.bytes().all(|b| b.is_ascii_digit()) {
                            if t.len() > 9 {
                                return RefParse::TooBig;
                            }
                            return RefParse::Unlisted("signed-count");
                        }
                        return RefParse::Listed("bad-header");
                    }
                }
            }
            Some(k) => {
                if words.len() != 2 {
                    if words.len() == 3 && words[0] == "p" {
                        return RefParse::Listed("duplicate-header");
                    }
                    return RefParse::Listed("wrong-arity");
                }
                let mut pair = [0usize; 2];
                for (i, w) in words.iter().enumerate() {
                    match strict_uint(w) {
                        Some(x) if x >= 1 && x <= k => pair[i] = x - 1,
                        Some(_) => return RefParse::Listed("index-out-of-range"),
                        None => {
                            let t = w.trim_start_matches('+');
                            if t.len() < w.len() && strict_uint(t).map(|x| x >= 1 && x <= k).unwrap_or(false) {
                                return RefParse::Unlisted("plus-sign");
                            }
                            // negative, zero-padded beyond 9 digits, non numeric: out of range / not an index
                            return RefParse::Listed("index-out-of-range");
                        }
                    }
                }
                atts.push((pair[0], pair[1]));
            }
        }
    }
    match n {
        None => RefParse::Listed("missing-header"),
        Some(k) => RefParse::Ok((1..=k).map(|i| i.to_string()).collect(), atts),
    }
}

fn is_ident(s: &str) -> bool {
    let mut cs = s.chars();
    match cs.next() {
        Some(c) if c == '_' || c.is_ascii_alphabetic() => {}
        _ => return false,
    }
    // digits: any Unicode decimal digit (the documented pattern uses \d), letters: ASCII
    cs.all(|c| c == '_' || c.is_ascii_alphabetic() || c.is_ascii_digit() || is_unicode_decimal_digit(c))
}

/// Decimal digits (general category Nd) of the scripts used by the generators.
fn is_unicode_decimal_digit(c: char) -> bool {
    matches!(c as u32, 0x0660..=0x0669 | 0x06F0..=0x06F9 | 0x0966..=0x096F | 0x0E50..=0x0E59 | 0xFF10..=0xFF19)
}

pub fn ref_parse_apx(bytes: &[u8]) -> RefParse {
    if std::str::from_utf8(bytes).is_err() {
        let lossy = String::from_utf8_lossy(bytes).to_string();
        return match ref_parse_apx(lossy.as_bytes()) {
            RefParse::Listed(c) => RefParse::Listed(c),
            _ => RefParse::Unlisted("not-utf8"),
        };
    }
    let lines = match lines_of(bytes) {
        Some(l) => l,
        None => return RefParse::Unlisted("not-utf8"),
    };
    let mut names: Vec<String> = Vec::new();
    let mut atts: Vec<(usize, usize)> = Vec::new();
    let mut att_seen = false;
    for l in lines.iter() {
        if l.chars().any(|c| c.is_whitespace() && c != ' ' && c != '\t') {
            return RefParse::Unlisted("exotic-whitespace");
        }
        let t = l.trim_matches([' ', '\t']);
        if t.is_empty() {
            continue;
        }
        let (kind, rest) = if let Some(r) = t.strip_prefix("arg(") {
            ("arg", r)
        } else if let Some(r) = t.strip_prefix("att(") {
            ("att", r)
        } else {
            return RefParse::Unlisted("syntax");
        };
        let inner = match rest.strip_suffix(").") {
            Some(i) => i,
            None => return RefParse::Unlisted("syntax"),
        };
        if inner.contains(')') || inner.contains('(') {
            return RefParse::Unlisted("syntax");
        }
        let parts: Vec<&str> = inner.split(',').map(|p| p.trim_matches([' ', '\t'])).collect();
        if kind == "arg" {
            if parts.len() != 1 {
                return RefParse::Listed("wrong-arity");
            }
            if !is_ident(parts[0]) {
                return RefParse::Unlisted("bad-identifier");
            }
            if att_seen {
                return RefParse::Listed("arg-after-att");
            }
            if !names.iter().any(|n| n == parts[0]) {
                names.push(parts[0].to_string());
            }
        } else {
            if parts.len() != 2 {
                return RefParse::Listed("wrong-arity");
            }
            if !is_ident(parts[0]) || !is_ident(parts[1]) {
                return RefParse::Unlisted("bad-identifier");
            }
            att_seen = true;
            let a = names.iter().position(|n| n == parts[0]);
            let b = names.iter().position(|n| n == parts[1]);
            match (a, b) {
                (Some(a), Some(b)) => atts.push((a, b)),
                _ => return RefParse::Listed("undeclared-argument"),
            }
        }
    }
    RefParse::Ok(names, atts)
}

// ---- generators of class (i) texts -----------------------------------------------------------

fn ws(rng: &mut Rng, min: usize) -> String {
    let k = min + if rng.pct(20) { rng.below(3) } else { 0 };
    (0..k).map(|_| if rng.pct(85) { ' ' } else { '\t' }).collect()
}

/// One text in 25 is "large": 18-60 arguments with one or two hubs (many outgoing and incoming
/// attacks, self-attacks on their targets), so that per-argument attack lists get long.
fn hub_attacks(rng: &mut Rng, n: usize) -> Vec<(usize, usize)> {
    let mut atts = Vec::new();
    let hubs: Vec<usize> = (0..rng.range(1, 2)).map(|_| rng.below(n)).collect();
    for _ in 0..rng.range(0, 12) {
        let a = rng.below(n);
        atts.push((a, a));
    }
    for h in hubs.iter() {
        let mut targets: Vec<usize> = (0..n).collect();
        rng.shuffle(&mut targets);
        let k = rng.range(n / 2, n);
        for t in targets.iter().take(k) {
            atts.push((*h, *t));
        }
        rng.shuffle(&mut targets);
        for t in targets.iter().take(rng.range(0, n / 2)) {
            atts.push((*t, *h));
        }
    }
    for _ in 0..rng.range(0, n) {
        atts.push((rng.below(n), rng.below(n)));
    }
    if rng.pct(50) {
        rng.shuffle(&mut atts);
    }
    atts
}

/// Declared sizes at and around powers of two (2^8, 2^16) and the cap of this check, with attacks
/// among the first and last arguments: index arithmetic that only fails at a size boundary.
pub fn gen_iccma_corner_text(rng: &mut Rng) -> Vec<u8> {
    let n = *rng.pick(&[255usize, 256, 257, 4095, 4096, 4097, 65_535, 65_536, 65_537, 65_538, 70_000, 99_999]);
    let corners = [1usize, 2, 3, n - 2, n - 1, n];
    let mut s = format!("p af {}\n", n);
    let mut seen = BTreeSet::new();
    for _ in 0..rng.range(2, 14) {
        let a = *rng.pick(&corners);
        let b = *rng.pick(&corners);
        if seen.insert((a, b)) {
            s.push_str(&format!("{} {}\n", a, b));
        }
    }
    s.into_bytes()
}

pub fn gen_iccma_text(rng: &mut Rng) -> (Vec<u8>, usize, Vec<(usize, usize)>) {
    let large = rng.pct(4);
    let n = if large { rng.range(18, 60) } else if rng.pct(8) { 0 } else { rng.range(1, 9) };
    let eol = if rng.pct(20) { "\r\n" } else { "\n" };
    let mut s = String::new();
    for _ in 0..rng.weighted(&[6, 2, 1]) {
        s.push_str(&format!("#{}{}", if rng.pct(50) { " a comment 1 2" } else { "" }, eol));
    }
    s.push_str(&format!("{}p{}af{}{}{}{}", ws(rng, 0), ws(rng, 1), ws(rng, 1), n, ws(rng, 0), eol));
    let mut atts = Vec::new();
    if n > 0 {
        let planned = if large { hub_attacks(rng, n) } else { Vec::new() };
        let m = if large { planned.len() } else { rng.range(0, 14) };
        for k in 0..m {
            let (a, b) = if large {
                planned[k]
            } else if !atts.is_empty() && rng.pct(12) {
                *rng.pick(&atts)
            } else if rng.pct(12) {
                let a = rng.below(n);
                (a, a)
            } else {
                (rng.below(n), rng.below(n))
            };
            atts.push((a, b));
            s.push_str(&format!("{}{}{}{}{}{}", ws(rng, 0), a + 1, ws(rng, 1), b + 1, ws(rng, 0), eol));
            if rng.pct(6) {
                s.push_str(&format!("# between{}", eol));
            }
        }
    }
    // trailing blank lines only
    for _ in 0..rng.weighted(&[7, 2, 1]) {
        s.push_str(eol);
    }
    let mut bytes = s.into_bytes();
    if rng.pct(15) {
        // missing final newline
        while bytes.last() == Some(&b'\n') || bytes.last() == Some(&b'\r') {
            bytes.pop();
        }
    }
    (bytes, n, atts)
}

/// Identifiers that contain or are the words of the Aspartix syntax itself.
pub const KEYWORD_IDENTS: [&str; 16] =
    ["att", "arg", "latte", "attacker", "target", "argument", "Matt", "att_1", "arg0", "x_att", "attarg", "argatt", "battery_low", "ARG", "Att", "a_arg_b"];

fn gen_ident(rng: &mut Rng) -> String {
    if rng.pct(4) {
        return KEYWORD_IDENTS[rng.below(KEYWORD_IDENTS.len())].to_string();
    }
    let first = b"abcxyzABZ_";
    let rest = b"abcxyzABZ_0129";
    let len = rng.weighted(&[4, 4, 2, 1]);
    let mut s = String::new();
    s.push(first[rng.below(first.len())] as char);
    for _ in 0..len {
        s.push(rest[rng.below(rest.len())] as char);
    }
    if rng.pct(2) {
        // the documented name pattern allows any decimal digit, not only ASCII ones
        s.push(*rng.pick(&['\u{0663}', '\u{0969}', '\u{0e53}', '\u{ff13}', '\u{06f7}']));
    }
    s
}

pub fn gen_apx_text(rng: &mut Rng) -> (Vec<u8>, Vec<String>, Vec<(usize, usize)>) {
    let large = rng.pct(4);
    let n = if large { rng.range(18, 60) } else if rng.pct(8) { 0 } else { rng.range(1, 8) };
    let eol = if rng.pct(20) { "\r\n" } else { "\n" };
    let mut names: Vec<String> = Vec::new();
    while names.len() < n {
        let id = gen_ident(rng);
        if !names.contains(&id) {
            names.push(id);
        }
    }
    let mut s = String::new();
    let blank = |rng: &mut Rng, s: &mut String| {
        if rng.pct(10) {
            s.push_str(&ws(rng, 0));
            s.push_str(eol);
        }
    };
    for (i, nm) in names.iter().enumerate() {
        blank(rng, &mut s);
        s.push_str(&format!("{}arg({}{}{}).{}{}", ws(rng, 0), ws(rng, 0), nm, ws(rng, 0), ws(rng, 0), eol));
        if rng.pct(8) {
            // duplicate declaration of an earlier argument
            let d = &names[rng.below(i + 1)];
            s.push_str(&format!("arg({}).{}", d, eol));
        }
    }
    let mut atts = Vec::new();
    if n > 0 {
        let planned = if large { hub_attacks(rng, n) } else { Vec::new() };
        let m = if large { planned.len() } else { rng.range(0, 12) };
        for k in 0..m {
            let (a, b) = if large {
                planned[k]
            } else if !atts.is_empty() && rng.pct(12) {
                *rng.pick(&atts)
            } else {
                (rng.below(n), rng.below(n))
            };
            atts.push((a, b));
            blank(rng, &mut s);
            s.push_str(&format!(
                "{}att({}{}{},{}{}{}).{}{}",
                ws(rng, 0), ws(rng, 0), names[a], ws(rng, 0), ws(rng, 0), names[b], ws(rng, 0), ws(rng, 0), eol
            ));
        }
    }
    blank(rng, &mut s);
    let mut bytes = s.into_bytes();
    if rng.pct(15) {
        while bytes.last() == Some(&b'\n') || bytes.last() == Some(&b'\r') {
            bytes.pop();
        }
    }
    (bytes, names, atts)
}

// ---- class (ii): deliberately ill-formed in a listed category ---------------------------------

pub fn gen_listed_illformed(rng: &mut Rng, iccma: bool) -> (Vec<u8>, &'static str) {
    if iccma {
        let n = rng.range(1, 6);
        let a = rng.range(1, n);
        let b = rng.range(1, n);
        let ok = format!("{} {}\n", a, b);
        let (s, cat): (String, &'static str) = match rng.below(13) {
            0 => (format!("q af {}\n{}", n, ok), "bad-header"),
            1 => (format!("p cnf {}\n{}", n, ok), "bad-header"),
            2 => (format!("p af\n{}", ok), "bad-header"),
            3 => (format!("p af {} 3\n{}", n, ok), "bad-header"),
            4 => (ok.to_string(), "missing-header"),
            5 => (String::new(), "missing-header"),
            6 => (format!("p af {}\np af {}\n{}", n, n, ok), "duplicate-header"),
            7 => (format!("p af -{}\n", n), "negative-count"),
            8 => (format!("p af x{}\n{}", n, ok), "non-numeric-count"),
            9 => (format!("p af {}\n{}0 {}\n", n, ok, a), "index-zero"),
            10 => (format!("p af {}\n{}{} {}\n", n, ok, a, n + 1), "index-n-plus-1"),
            11 => {
                if rng.pct(50) {
                    (format!("p af {}\n{}{}\n", n, ok, a), "arity-1")
                } else {
                    (format!("p af {}\n{}{} {} {}\n", n, ok, a, b, a), "arity-3")
                }
            }
            _ => {
                if rng.pct(50) {
                    (format!("p af {}\n{}\n{}", n, ok, ok), "content-after-blank-line")
                } else {
                    (format!("\np af {}\n", n), "header-after-blank-line")
                }
            }
        };
        if rng.pct(8) {
            // an undecodable byte inside an attack line after a valid prefix
            let mut b = format!("p af {}\n{}{} ", n, ok, a).into_bytes();
            b.push(0xff);
            b.extend_from_slice(format!("{}\n{}", b'0' as char, ok).as_bytes());
            return (b, "undecodable-byte-in-attack-line");
        }
        let s = if cat == "index-zero" && rng.pct(30) {
            s.replace("0 ", "-1 ")
        } else {
            s
        };
        (s.into_bytes(), cat)
    } else {
        let (s, cat): (&str, &'static str) = match rng.below(8) {
            0 => ("arg(a).\natt(a,b).\n", "undeclared-argument"),
            1 => ("arg(a).\narg(b).\natt(c,a).\n", "undeclared-argument"),
            2 => ("arg(a).\narg(b).\natt(a,b).\narg(c).\n", "arg-after-att"),
            3 => ("arg(a).\natt(a,a).\narg(a).\n", "arg-after-att"),
            4 => ("arg(a).\narg(b).\natt(a).\n", "arity-1"),
            5 => ("arg(a).\narg(b).\natt(a,b,a).\n", "arity-3"),
            6 => ("arg(a,b).\n", "arity-2-arg"),
            _ => ("att(a,b).\n", "undeclared-argument"),
        };
        (s.as_bytes().to_vec(), cat)
    }
}

// ---- class (iii): corruption -------------------------------------------------------------------

pub fn corrupt(rng: &mut Rng, input: &[u8]) -> Vec<u8> {
    let mut b = input.to_vec();
    let hostile: &[&[u8]] = &[
        b"\x00", b"\xff", b"\xc3", b"\xe2\x82", b"-", b"+", b"0", b"1", b"9", b"99999999999999999999",
        b" ", b"\t", b"\n", b"\r", b"\r\n", b"\n\n", b"#", b"%", b"p", b"af", b"p af 2", b"arg(", b"att(", b").", b".", b",", b"(", b")",
        b"\xd9\xa3", b"\xc2\xa0", b"\xe2\x80\xa8", b"x", b"_", b"18446744073709551616", b"-1", b"0 0", b"1 1",
    ];
    for _ in 0..rng.range(1, 4) {
        match rng.below(10) {
            8 if !b.is_empty() => {
                // one ASCII character replaced by a well-formed multi-byte one (2, 3 or 4 bytes): the text
                // stays valid UTF-8 but byte offsets no longer are character offsets
                let i = rng.below(b.len());
                if b[i] < 0x80 && b[i] != b'\n' {
                    let m: &[u8] = *rng.pick(&["\u{e9}".as_bytes(), "\u{20ac}".as_bytes(), "\u{1d11e}".as_bytes()]);
                    b.splice(i..i + 1, m.iter().copied());
                }
            }
            9 => {
                // a decimal token replaced by the same value plus a multiple of 2^64 (or of 2^32): out of
                // range for any declared size, equal to the original after a wrap-around
                let mut lines: Vec<Vec<u8>> = b.split(|c| *c == b'\n').map(|l| l.to_vec()).collect();
                let li = rng.below(lines.len().max(1));
                if let Some(line) = lines.get_mut(li) {
                    let mut toks: Vec<Vec<u8>> = line.split(|c| *c == b' ').map(|t| t.to_vec()).collect();
                    let idx: Vec<usize> = (0..toks.len()).filter(|i| !toks[*i].is_empty() && toks[*i].iter().all(|c| c.is_ascii_digit()) && toks[*i].len() < 15).collect();
                    if !idx.is_empty() {
                        let i = *rng.pick(&idx);
                        let v: u128 = std::str::from_utf8(&toks[i]).unwrap().parse().unwrap_or(1);
                        let big: u128 = v + (*rng.pick(&[1u128 << 64, 1u128 << 32, 3u128 << 64, 1u128 << 63])) * (1 + rng.below(2) as u128);
                        toks[i] = big.to_string().into_bytes();
                        *line = toks.join(&b' ');
                        b = lines.join(&b'\n');
                    }
                }
            }
            0 if !b.is_empty() => {
                let i = rng.below(b.len());
                b[i] ^= 1 << rng.below(8);
            }
            1 => {
                let i = rng.below(b.len() + 1);
                let h = hostile[rng.below(hostile.len())];
                for (k, x) in h.iter().enumerate() {
                    b.insert(i + k, *x);
                }
            }
            2 if !b.is_empty() => {
                let i = rng.below(b.len());
                b.remove(i);
            }
            3 | 4 => {
                // line-level: duplicate, drop or swap lines
                let mut lines: Vec<Vec<u8>> = b.split(|c| *c == b'\n').map(|l| l.to_vec()).collect();
                if lines.len() >= 2 {
                    let i = rng.below(lines.len());
                    let j = rng.below(lines.len());
                    match rng.below(3) {
                        0 => {
                            let l = lines[i].clone();
                            lines.insert(j, l);
                        }
                        1 => {
                            lines.remove(i);
                        }
                        _ => lines.swap(i, j),
                    }
                    b = lines.join(&b'\n');
                }
            }
            5 | 6 => {
                // token-level: duplicate, drop or swap whitespace-separated tokens on one line
                let mut lines: Vec<Vec<u8>> = b.split(|c| *c == b'\n').map(|l| l.to_vec()).collect();
                if !lines.is_empty() {
                    let li = rng.below(lines.len());
                    let mut toks: Vec<Vec<u8>> = lines[li]
                        .split(|c| *c == b' ')
                        .map(|t| t.to_vec())
                        .collect();
                    if !toks.is_empty() {
                        let i = rng.below(toks.len());
                        let j = rng.below(toks.len());
                        match rng.below(3) {
                            0 => {
                                let t = toks[i].clone();
                                toks.insert(j, t);
                            }
                            1 => {
                                toks.remove(i);
                            }
                            _ => toks.swap(i, j),
                        }
                        lines[li] = toks.join(&b' ');
                        b = lines.join(&b'\n');
                    }
                }
            }
            _ => {
                // truncate
                if !b.is_empty() {
                    let i = rng.below(b.len());
                    b.truncate(i);
                }
            }
        }
    }
    b
}

// ---- running the readers -------------------------------------------------------------------------

#[derive(Debug, PartialEq, Eq)]
pub enum ReadOutcome {
    Ok(Vec<String>, Vec<(usize, usize)>),
    Err(String),
    Panic(String, String),
}

fn describe<T: HLabel>(af: &AAFramework<T>) -> (Vec<String>, Vec<(usize, usize)>) {
    let names: Vec<String> = af.argument_set().iter().map(|a| a.label().to_string()).collect();
    let idx: BTreeMap<String, usize> = names.iter().enumerate().map(|(i, n)| (n.clone(), i)).collect();
    let mut atts: Vec<(usize, usize)> = af
        .iter_attacks()
        .map(|a| (idx[&a.attacker().label().to_string()], idx[&a.attacked().label().to_string()]))
        .collect();
    atts.sort();
    atts.dedup();
    (names, atts)
}

pub fn run_reader(iccma: bool, bytes: &[u8]) -> ReadOutcome {
    let r = catch(|| {
        if iccma {
            Iccma23Reader::default()
                .read(&mut &bytes[..])
                .map(|af| describe(&af))
                .map_err(|e| format!("{:#}", e))
        } else {
            AspartixReader::default()
                .read(&mut &bytes[..])
                .map(|af| describe(&af))
                .map_err(|e| format!("{:#}", e))
        }
    });
    match r {
        Ok(Ok((n, a))) => ReadOutcome::Ok(n, a),
        Ok(Err(e)) => ReadOutcome::Err(e),
        Err(p) => ReadOutcome::Panic(p.msg.clone(), p.site()),
    }
}

thread_local! {
    /// One long-lived reader object per format and per shard: `read` takes `&self`, so an object may
    /// legally serve any number of inputs, well-formed or not, in any order.
    static LONG_LIVED_ICCMA: Iccma23Reader = Iccma23Reader::default();
    static LONG_LIVED_APX: AspartixReader = AspartixReader::default();
    static PREVIOUS_INPUT: std::cell::RefCell<[Vec<u8>; 2]> = const { std::cell::RefCell::new([Vec::new(), Vec::new()]) };
}

/// The same input put to the shard's long-lived reader object (which has read every earlier input of
/// the shard, including the rejected ones).  Returns the outcome and the previous input of that object.
pub fn run_reader_long_lived(iccma: bool, bytes: &[u8]) -> (ReadOutcome, Vec<u8>) {
    let r = catch(|| {
        if iccma {
            LONG_LIVED_ICCMA.with(|rd| rd.read(&mut &bytes[..]).map(|af| describe(&af)).map_err(|e| format!("{:#}", e)))
        } else {
            LONG_LIVED_APX.with(|rd| rd.read(&mut &bytes[..]).map(|af| describe(&af)).map_err(|e| format!("{:#}", e)))
        }
    });
    let prev = PREVIOUS_INPUT.with(|p| {
        let mut p = p.borrow_mut();
        std::mem::replace(&mut p[usize::from(iccma)], bytes.to_vec())
    });
    let out = match r {
        Ok(Ok((n, a))) => ReadOutcome::Ok(n, a),
        Ok(Err(e)) => ReadOutcome::Err(e),
        Err(p) => ReadOutcome::Panic(p.msg.clone(), p.site()),
    };
    (out, prev)
}

fn text_case(iccma: bool, class: &str, bytes: &[u8]) -> Value {
    json!({"format": if iccma { "iccma23" } else { "apx" }, "class": class,
           "bytes_hex": bytes.iter().map(|b| format!("{:02x}", b)).collect::<String>(),
           "text_lossy": String::from_utf8_lossy(bytes)})
}

fn judge_text(ctx: &mut Ctx, iccma: bool, class: &str, bytes: &[u8], listed_cat: Option<&str>) {
    ctx.eval();
    let fmt = if iccma { "iccma23" } else { "apx" };
    let reference = if iccma { ref_parse_iccma(bytes) } else { ref_parse_apx(bytes) };
    if reference == RefParse::TooBig {
        ctx.count("skipped/declared-size-above-cap");
        return;
    }
    let got = run_reader(iccma, bytes);
    ctx.count(&format!("inputs/{}/{}", fmt, class));
    // a reader object that has already served other inputs must behave like a fresh one
    {
        let (reused, previous) = run_reader_long_lived(iccma, bytes);
        ctx.count("inputs/also-read-by-a-long-lived-reader-object");
        let same = match (&got, &reused) {
            (ReadOutcome::Ok(a, b), ReadOutcome::Ok(c, d)) => a == c && b == d,
            (ReadOutcome::Err(_), ReadOutcome::Err(_)) => true,
            (ReadOutcome::Panic(..), ReadOutcome::Panic(..)) => true,
            _ => false,
        };
        if !same {
            ctx.violation(
                &format!("C13/reused-reader-object-differs-from-fresh-one/{}", fmt),
                json!({"fresh_reader": format!("{:?}", got).chars().take(400).collect::<String>(),
                       "long_lived_reader": format!("{:?}", reused).chars().take(400).collect::<String>(),
                       "previous_input_of_the_long_lived_reader_lossy": String::from_utf8_lossy(&previous),
                       "previous_input_hex": previous.iter().map(|b| format!("{:02x}", b)).collect::<String>()}),
                &{
                    let mut c = text_case(iccma, class, bytes);
                    c["previous_input_hex"] = json!(previous.iter().map(|b| format!("{:02x}", b)).collect::<String>());
                    c
                },
            );
            return;
        }
    }
    if let ReadOutcome::Panic(msg, site) = &got {
        ctx.violation(
            &format!("C13/panic/{}/{}", fmt, site),
            json!({"panic": msg}),
            &text_case(iccma, class, bytes),
        );
        return;
    }
    if let Some(cat) = listed_cat {
        // class (ii): must be rejected
        if let ReadOutcome::Ok(n, a) = &got {
            ctx.violation(
                &format!("C13/ill-formed-accepted/{}/{}", fmt, cat),
                json!({"category": cat, "read_as": {"arguments": n, "attacks": a}}),
                &text_case(iccma, class, bytes),
            );
        } else {
            ctx.count(&format!("rejected/{}/{}", fmt, cat));
        }
        return;
    }
    match (&reference, &got) {
        (RefParse::Ok(names, atts), ReadOutcome::Ok(gn, ga)) => {
            let mut ea = atts.clone();
            ea.sort();
            ea.dedup();
            if names != gn || &ea != ga {
                ctx.violation(
                    &format!("C13/framework-differs/{}/{}", fmt, class),
                    json!({"expected": {"arguments": names, "attacks": ea}, "read_as": {"arguments": gn, "attacks": ga}}),
                    &text_case(iccma, class, bytes),
                );
            } else {
                ctx.count(&format!("agreed-accept/{}", fmt));
                if names.len() >= 18 {
                    ctx.count(&format!("agreed-accept/{}/18-60-arguments-with-hubs", fmt));
                    ctx.maximum("longest_accepted_attack_list", atts.len() as u64);
                }
                if !atts.is_empty() {
                    let mut h = Hasher64::new();
                    h.bytes(bytes);
                    h.str(fmt);
                    ctx.nontrivial(h.finish());
                }
            }
        }
        (RefParse::Ok(names, atts), ReadOutcome::Err(e)) => {
            ctx.violation(
                &format!("C13/well-formed-rejected/{}/{}", fmt, class),
                json!({"error": e, "expected": {"arguments": names, "attacks": atts}}),
                &text_case(iccma, class, bytes),
            );
        }
        (RefParse::Listed(cat), ReadOutcome::Ok(gn, ga)) => {
            ctx.violation(
                &format!("C13/ill-formed-accepted/{}/{}", fmt, cat),
                json!({"category": cat, "read_as": {"arguments": gn, "attacks": ga}}),
                &text_case(iccma, class, bytes),
            );
        }
        (RefParse::Listed(cat), ReadOutcome::Err(_)) => {
            ctx.count(&format!("rejected/{}/{}", fmt, cat));
            let mut h = Hasher64::new();
            h.bytes(bytes);
            h.str(fmt);
            ctx.nontrivial(h.finish());
        }
        (RefParse::Unlisted(why), ReadOutcome::Ok(..)) => {
            ctx.count(&format!("lenient/{}/{}", fmt, why));
        }
        (RefParse::Unlisted(why), ReadOutcome::Err(_)) => {
            ctx.count(&format!("rejected-unlisted/{}/{}", fmt, why));
        }
        _ => {}
    }
    ctx.sample(&format!("{}/{}", fmt, class), || text_case(iccma, class, bytes));
}

fn check_read_arg(ctx: &mut Ctx, iccma: bool, bytes: &[u8], rng: &mut Rng) {
    // read_arg_from_str must agree with label / 1-based index lookup
    if iccma && ref_parse_iccma(bytes) == RefParse::TooBig {
        return;
    }
    if iccma {
        let reader = Iccma23Reader::default();
        if let Ok(af) = reader.read(&mut &bytes[..]) {
            let n = af.n_arguments();
            let mut cands: Vec<String> = vec!["0".into(), "1".into(), n.to_string(), (n + 1).to_string(), "-1".into(), "".into(), "a".into(), " 1".into(), "1 ".into(), "01".into()];
            cands.push(rng.below(n + 3).to_string());
            for c in cands {
                ctx.eval();
                let r = catch(|| reader.read_arg_from_str(&af, &c).map(|a| (*a.label(), a.id())).map_err(|e| format!("{:#}", e)));
                let exp: Option<usize> = strict_uint(&c).filter(|k| *k >= 1 && *k <= n);
                match r {
                    Err(p) => ctx.violation(
                        &format!("C13/panic/read_arg_from_str/iccma23/{}", p.site()),
                        json!({"arg": c, "panic": p.to_json()}),
                        &text_case(true, "read_arg", bytes),
                    ),
                    Ok(Ok((label, id))) => {
                        let lenient = exp.is_none() && c.trim_start_matches('+').parse::<usize>().map(|k| k >= 1 && k <= n).unwrap_or(false);
                        if lenient {
                            ctx.count("lenient/iccma23/read_arg-sign-or-padding");
                        } else if exp != Some(label) || id + 1 != label {
                            ctx.violation(
                                "C13/read_arg_from_str-disagrees/iccma23",
                                json!({"arg": c, "returned_label": label, "returned_id": id, "expected": exp}),
                                &text_case(true, "read_arg", bytes),
                            );
                        }
                    }
                    Ok(Err(_)) => {
                        if exp.is_some() {
                            ctx.violation(
                                "C13/read_arg_from_str-rejects-valid/iccma23",
                                json!({"arg": c}),
                                &text_case(true, "read_arg", bytes),
                            );
                        }
                    }
                }
            }
        }
    } else {
        let reader = AspartixReader::default();
        if let Ok(af) = reader.read(&mut &bytes[..]) {
            let names: Vec<String> = af.argument_set().iter().map(|a| a.label().clone()).collect();
            let mut cands: Vec<String> = vec!["".into(), "zz_not_there".into(), "1".into()];
            if !names.is_empty() {
                cands.push(rng.pick(&names).clone());
                cands.push(format!("{} ", rng.pick(&names)));
            }
            for c in cands {
                ctx.eval();
                let r = catch(|| reader.read_arg_from_str(&af, &c).map(|a| a.label().clone()).map_err(|e| format!("{:#}", e)));
                let exp = names.iter().find(|n| **n == c).cloned();
                match r {
                    Err(p) => ctx.violation(
                        &format!("C13/panic/read_arg_from_str/apx/{}", p.site()),
                        json!({"arg": c, "panic": p.to_json()}),
                        &text_case(false, "read_arg", bytes),
                    ),
                    Ok(res) => {
                        if res.clone().ok() != exp {
                            ctx.violation(
                                "C13/read_arg_from_str-disagrees/apx",
                                json!({"arg": c, "returned": format!("{:?}", res), "expected": exp}),
                                &text_case(false, "read_arg", bytes),
                            );
                        }
                    }
                }
            }
        }
    }
}

fn check_cli(ctx: &mut Ctx, iccma: bool, bytes: &[u8], idx: u64) {
    // (the property is about declared sizes that fit in memory: a corrupted header may declare billions)
    if iccma && ref_parse_iccma(bytes) == RefParse::TooBig {
        ctx.count("skipped/declared-size-above-cap");
        return;
    }
    // `crustabri check` exit status must agree with the library result
    let dir = ctx.out_dir.join(format!("files-{}", ctx.shard));
    let _ = std::fs::create_dir_all(&dir);
    let path = dir.join(format!("in-{}.txt", idx));
    if std::fs::write(&path, bytes).is_err() {
        ctx.harness_error("cannot write instance file");
        return;
    }
    let bin = ctx.repo_bin_dir.join("crustabri");
    let out = std::process::Command::new(&bin)
        .args(["check", "-f", path.to_str().unwrap(), "-r", if iccma { "iccma23" } else { "apx" }, "--logging-level", "off"])
        .env("RUST_BACKTRACE", "0")
        .output();
    let _ = std::fs::remove_file(&path);
    let out = match out {
        Ok(o) => o,
        Err(e) => {
            ctx.harness_error(&format!("cannot run {:?}: {}", bin, e));
            return;
        }
    };
    ctx.eval();
    ctx.count("cli_check_runs");
    let lib_ok = matches!(run_reader(iccma, bytes), ReadOutcome::Ok(..));
    if out.status.success() != lib_ok {
        ctx.violation(
            &format!("C13/cli-check-disagrees-with-library/{}", if iccma { "iccma23" } else { "apx" }),
            json!({"library_accepts": lib_ok, "exit_status": out.status.code(),
                   "stderr": String::from_utf8_lossy(&out.stderr).chars().take(300).collect::<String>()}),
            &text_case(iccma, "cli", bytes),
        );
    }
}

pub fn run_c13(ctx: &mut Ctx) {
    let n: u64 = ctx.tier.pick(80_000, 2_000_000);
    let cli_every: u64 = ctx.tier.pick(100, 500);
    for i in 0..n {
        if !ctx.mine(i) {
            continue;
        }
        if ctx.out_of_time() {
            return;
        }
        if i % 512 == 0 {
            ctx.case_begin(&json!({"i": i}));
        }
        let mut rng = Rng::from_path(&[ctx.seed, 13, i]);
        crate::report::guarded(ctx, |ctx| c13_one(ctx, &mut rng, i, cli_every));
    }
}

fn c13_one(ctx: &mut Ctx, rng: &mut Rng, i: u64, cli_every: u64) {
    if i % 900 == 11 {
        // a physical line longer than 64 KiB (comment, or blanks around a declaration) in a well-formed text
        let mut r2 = rng.clone();
        let iccma = r2.pct(50);
        let len = *r2.pick(&[65_530usize, 65_535, 65_536, 65_537, 70_000, 140_000]);
        let text: Vec<u8> = if iccma {
            let mut t = String::from("p af 3\n1 2\n");
            if r2.pct(50) {
                t.push('#');
                t.push_str(&"x".repeat(len));
                if r2.pct(50) {
                    t.push_str(" 2 1");
                }
                t.push('\n');
            } else {
                t.push_str(&format!("2{}3\n", " ".repeat(len)));
            }
            t.push_str("3 1\n");
            t.into_bytes()
        } else {
            let mut t = String::from("arg(a).\narg(b).\n");
            t.push_str(&format!("arg({}c{}).\n", " ".repeat(len / 2), " ".repeat(len / 2)));
            t.push_str("att(a,b).\natt(c,a).\n");
            t.into_bytes()
        };
        ctx.count("inputs/line-longer-than-64KiB");
        judge_text(ctx, iccma, "well-formed", &text, None);
    }
    if i % 400 == 7 {
        let mut r2 = rng.clone();
        let t = gen_iccma_corner_text(&mut r2);
        ctx.count("inputs/iccma23/declared-size-at-a-power-of-two-boundary");
        judge_text(ctx, true, "well-formed", &t, None);
    }
    {
        let mut rng = rng.clone();
        let iccma = rng.pct(50);
        let base: Vec<u8> = if iccma { gen_iccma_text(&mut rng).0 } else { gen_apx_text(&mut rng).0 };
        // class (i)
        judge_text(ctx, iccma, "well-formed", &base, None);
        if rng.pct(14) {
            check_read_arg(ctx, iccma, &base, &mut rng);
        }
        // class (ii)
        if rng.pct(20) {
            let (b, cat) = gen_listed_illformed(&mut rng, iccma);
            judge_text(ctx, iccma, "listed-ill-formed", &b, Some(cat));
        }
        // class (iii)
        for _ in 0..6 {
            let c = corrupt(&mut rng, &base);
            judge_text(ctx, iccma, "corrupted", &c, None);
            if (i / 16) % cli_every == 0 {
                check_cli(ctx, iccma, &c, i);
            }
        }
        if (i / 16) % cli_every == 0 {
            check_cli(ctx, iccma, &base, i);
        }
    }
}

pub fn replay_c13(ctx: &mut Ctx, case: &Value) -> Result<(), String> {
    let hex = case.get("bytes_hex").and_then(|x| x.as_str()).ok_or("no bytes_hex")?;
    let bytes: Vec<u8> = (0..hex.len() / 2)
        .map(|i| u8::from_str_radix(&hex[2 * i..2 * i + 2], 16).map_err(|e| e.to_string()))
        .collect::<Result<Vec<_>, _>>()?;
    let iccma = case.get("format").and_then(|x| x.as_str()) == Some("iccma23");
    let class = case.get("class").and_then(|x| x.as_str()).unwrap_or("replay").to_string();
    if let Some(ph) = case.get("previous_input_hex").and_then(|x| x.as_str()) {
        // the long-lived reader object first reads what it had read before the recorded input
        let prev: Vec<u8> = (0..ph.len() / 2).filter_map(|i| u8::from_str_radix(&ph[2 * i..2 * i + 2], 16).ok()).collect();
        let _ = run_reader_long_lived(iccma, &prev);
    }
    if class == "listed-ill-formed" {
        judge_text(ctx, iccma, &class, &bytes, Some("replayed"));
    } else {
        judge_text(ctx, iccma, &class, &bytes, None);
    }
    let mut rng = Rng::new(1);
    check_read_arg(ctx, iccma, &bytes, &mut rng);
    Ok(())
}

// =============================================================================================
// C14: writers
// =============================================================================================

/// A writer that accepts one byte per call (short writes).
struct OneByte(Vec<u8>);

impl Write for OneByte {
    fn write(&mut self, buf: &[u8]) -> std::io::Result<usize> {
        if buf.is_empty() {
            return Ok(0);
        }
        self.0.push(buf[0]);
        Ok(1)
    }
    fn flush(&mut self) -> std::io::Result<()> {
        Ok(())
    }
}

/// A sink that accepts `left` bytes and then fails.
struct FailsAfter {
    left: usize,
}

impl Write for FailsAfter {
    fn write(&mut self, buf: &[u8]) -> std::io::Result<usize> {
        if self.left == 0 {
            return Err(std::io::Error::new(std::io::ErrorKind::Other, "sink full (injected)"));
        }
        let k = buf.len().min(self.left);
        self.left -= k;
        Ok(k)
    }
    fn flush(&mut self) -> std::io::Result<()> {
        Ok(())
    }
}

/// A pipe-like sink: accepts `room` bytes, then reports `WouldBlock` once, then accepts everything.
struct BlocksOnce {
    room: usize,
    blocked: bool,
    got: Vec<u8>,
}

impl Write for BlocksOnce {
    fn write(&mut self, buf: &[u8]) -> std::io::Result<usize> {
        if !self.blocked {
            if self.room == 0 {
                self.blocked = true;
                return Err(std::io::Error::new(std::io::ErrorKind::WouldBlock, "pipe full (injected)"));
            }
            let k = buf.len().min(self.room);
            self.room -= k;
            self.got.extend_from_slice(&buf[..k]);
            return Ok(k);
        }
        self.got.extend_from_slice(buf);
        Ok(buf.len())
    }
    fn flush(&mut self) -> std::io::Result<()> {
        Ok(())
    }
}

/// An answer written into a sink that blocks once: the call may fail (then what was sent is a prefix
/// of the answer) or succeed (then exactly the answer was sent).  Returns a description of a breach.
fn blocks_once_breach(expected: &[u8], room: usize, f: impl FnOnce(&mut dyn Write) -> anyhow::Result<()>) -> Option<String> {
    let mut sink = BlocksOnce { room, blocked: false, got: Vec::new() };
    let r = f(&mut sink);
    match r {
        Ok(()) if sink.got != expected => Some(format!("reported success but sent {:?}", String::from_utf8_lossy(&sink.got[..sink.got.len().min(80)]))),
        Err(_) if !expected.starts_with(&sink.got) => Some(format!("failed after sending {:?}, which is not a prefix of the answer", String::from_utf8_lossy(&sink.got[..sink.got.len().min(80)]))),
        _ => None,
    }
}

thread_local! {
    /// One long-lived writer object per format and shard (the methods take `&self`): it serves every
    /// answer of the shard, and now and then a write into a sink that fails, before the judged one.
    static LONG_LIVED_ICCMA_WRITER: Iccma23Writer = Iccma23Writer::default();
    static LONG_LIVED_APX_WRITER: AspartixWriter = AspartixWriter::default();
    static WRITES_SEEN: std::cell::Cell<u64> = const { std::cell::Cell::new(0) };
}

/// Every fifth answer is preceded by the same kind of answer written, with the same object, into a
/// sink that fails after 0-5 bytes; whatever that does, the next answer must be exactly right.
fn failing_write_due() -> Option<usize> {
    WRITES_SEEN.with(|c| {
        let n = c.get() + 1;
        c.set(n);
        if n % 5 == 0 {
            Some(((n / 5) % 6) as usize)
        } else {
            None
        }
    })
}

fn with_iccma_writer<R>(f: impl FnOnce(&Iccma23Writer) -> R) -> R {
    LONG_LIVED_ICCMA_WRITER.with(|w| f(w))
}

fn with_apx_writer<R>(f: impl FnOnce(&AspartixWriter) -> R) -> R {
    LONG_LIVED_APX_WRITER.with(|w| f(w))
}

fn write_with<F>(short: bool, f: F) -> Result<Vec<u8>, String>
where
    F: FnOnce(&mut dyn Write) -> anyhow::Result<()>,
{
    if short {
        let mut w = OneByte(Vec::new());
        f(&mut w).map_err(|e| format!("{:#}", e))?;
        Ok(w.0)
    } else {
        let mut w: Vec<u8> = Vec::new();
        f(&mut w).map_err(|e| format!("{:#}", e))?;
        Ok(w)
    }
}

/// Grammar of an ICCMA'23 witness line: `w( label)*\n`.
fn parse_w_line(b: &[u8]) -> Option<Vec<String>> {
    let s = std::str::from_utf8(b).ok()?;
    let body = s.strip_suffix('\n')?;
    if body.contains('\n') || body.contains('\r') {
        return None;
    }
    let rest = body.strip_prefix('w')?;
    if rest.is_empty() {
        return Some(vec![]);
    }
    let mut out = Vec::new();
    let rest = rest.strip_prefix(' ')?;
    for tok in rest.split(' ') {
        if tok.is_empty() {
            return None;
        }
        out.push(tok.to_string());
    }
    Some(out)
}

/// Grammar of an Aspartix extension line: `[` label (`,` label)* `]\n` or `[]\n`.
fn parse_bracket_line(b: &[u8]) -> Option<Vec<String>> {
    let s = std::str::from_utf8(b).ok()?;
    let body = s.strip_suffix('\n')?;
    if body.contains('\n') || body.contains('\r') {
        return None;
    }
    let inner = body.strip_prefix('[')?.strip_suffix(']')?;
    if inner.is_empty() {
        return Some(vec![]);
    }
    let mut out = Vec::new();
    for tok in inner.split(',') {
        if tok.is_empty() || tok.contains(' ') {
            return None;
        }
        out.push(tok.to_string());
    }
    Some(out)
}

fn ident_label(k: usize) -> String {
    // valid Aspartix identifiers of several shapes
    match k % 4 {
        0 => format!("a{}", k),
        1 => format!("_x{}", k),
        2 => format!("Arg_{}", k),
        _ => format!("b{}c", k),
    }
}

fn eval_c14_framework(ctx: &mut Ctx, rng: &mut Rng) {
    // a framework produced by a store history over identifier labels
    let len = if rng.pct(8) { rng.range(120, 400) } else { rng.range(5, 50) };
    let raw: Vec<Op<usize>> = gen_store_ops::<usize>(rng, len);
    // one framework in forty has a label of 8-20 KiB (a declaration line longer than any batch buffer)
    let long: Option<(usize, String)> = if rng.pct(3) {
        ctx.count("frameworks_with_a_label_above_8KiB");
        Some((rng.below(4) + 1, format!("L{}", "y".repeat(rng.range(8_000, 20_000)))))
    } else {
        None
    };
    // one framework in ten is named with the words of the syntax itself (att, arg, latte, attacker, ...)
    let kw = rng.pct(10);
    if kw {
        ctx.count("frameworks_with_labels_that_contain_syntax_words");
    }
    let name = |k: usize| -> String {
        match &long {
            Some((lk, l)) if *lk == k => l.clone(),
            _ if kw => {
                if k < KEYWORD_IDENTS.len() {
                    KEYWORD_IDENTS[k].to_string()
                } else {
                    format!("{}{}", KEYWORD_IDENTS[k % KEYWORD_IDENTS.len()], k)
                }
            }
            _ => ident_label(k),
        }
    };
    let ops: Vec<Op<String>> = raw
        .iter()
        .map(|o| match o {
            Op::AddArg(a) => Op::AddArg(name(*a)),
            Op::DelArg(a) => Op::DelArg(name(*a)),
            Op::AddAtt(a, b) => Op::AddAtt(name(*a), name(*b)),
            Op::DelAtt(a, b) => Op::DelAtt(name(*a), name(*b)),
        })
        .collect();
    let built = catch(|| {
        let mut af: AAFramework<String> = AAFramework::new_with_argument_set(ArgumentSet::new_with_labels(&[]));
        for op in ops.iter() {
            match op {
                Op::AddArg(l) => af.new_argument(l.clone()),
                Op::DelArg(l) => {
                    let _ = af.remove_argument(l);
                }
                Op::AddAtt(a, b) => {
                    let _ = af.new_attack(a, b);
                }
                Op::DelAtt(a, b) => {
                    let _ = af.remove_attack(a, b);
                }
            }
        }
        af
    });
    let mut af = match built {
        Ok(af) => af,
        Err(_) => {
            // the store itself panicked: C12 reports that; nothing to write here
            ctx.inconclusive("store-panicked-while-building-the-framework");
            return;
        }
    };
    let case = json!({"kind": "framework", "ops": ops.iter().map(|o| o.to_json()).collect::<Vec<_>>()});
    ctx.eval();
    let short = rng.pct(30);
    let written = catch(|| write_with(short, |w| with_apx_writer(|wr| wr.write_framework(&af, w))));
    let bytes = match written {
        Err(p) => {
            ctx.violation(&format!("C14/panic/write_framework/{}", p.site()), p.to_json(), &case);
            return;
        }
        Ok(Err(e)) => {
            ctx.violation("C14/write_framework-failed", json!({"error": e}), &case);
            return;
        }
        Ok(Ok(b)) => b,
    };
    let (names, atts) = describe(&af);
    // what the history *specifies* (plain set model: arguments in insertion order, attacks as a set);
    // a store that lost or invented something would otherwise be round-tripped faithfully
    {
        let mut live: Vec<String> = Vec::new();
        let mut att: BTreeSet<(String, String)> = BTreeSet::new();
        for op in ops.iter() {
            match op {
                Op::AddArg(l) => {
                    if !live.contains(l) {
                        live.push(l.clone());
                    }
                }
                Op::DelArg(l) => {
                    live.retain(|x| x != l);
                    att.retain(|(a, b)| a != l && b != l);
                }
                Op::AddAtt(a, b) => {
                    if live.contains(a) && live.contains(b) {
                        att.insert((a.clone(), b.clone()));
                    }
                }
                Op::DelAtt(a, b) => {
                    att.remove(&(a.clone(), b.clone()));
                }
            }
        }
        let idx = |l: &String| live.iter().position(|x| x == l).unwrap();
        let mut spec_atts: Vec<(usize, usize)> = att.iter().map(|(a, b)| (idx(a), idx(b))).collect();
        spec_atts.sort();
        if live != names || spec_atts != atts {
            ctx.violation(
                "C14/framework-to-write-differs-from-the-history",
                json!({"specified": {"arguments": live, "attacks": spec_atts}, "framework_exposes": {"arguments": names, "attacks": atts}}),
                &case,
            );
            return;
        }
    }
    let text = String::from_utf8_lossy(&bytes).to_string();
    // independent reference parser
    match ref_parse_apx(&bytes) {
        RefParse::Ok(rn, ra) => {
            let mut ra = ra;
            ra.sort();
            ra.dedup();
            if rn != names || ra != atts {
                ctx.violation(
                    "C14/written-framework-differs/reference-parser",
                    json!({"written": text, "expected": {"arguments": names, "attacks": atts}, "parsed": {"arguments": rn, "attacks": ra}}),
                    &case,
                );
                return;
            }
        }
        other => {
            ctx.violation(
                "C14/written-framework-not-well-formed",
                json!({"written": text, "reference": format!("{:?}", other)}),
                &case,
            );
            return;
        }
    }
    // the repository's own reader
    match run_reader(false, &bytes) {
        ReadOutcome::Ok(rn, ra) => {
            if rn != names || ra != atts {
                ctx.violation(
                    "C14/round-trip-differs",
                    json!({"written": text, "expected": {"arguments": names, "attacks": atts}, "read_back": {"arguments": rn, "attacks": ra}}),
                    &case,
                );
                return;
            }
        }
        other => {
            ctx.violation(
                "C14/round-trip-read-failed",
                json!({"written": text, "outcome": format!("{:?}", other)}),
                &case,
            );
            return;
        }
    }
    ctx.count("frameworks_round_tripped");
    // the same framework object, changed without changing its counts (one attack reversed), written
    // again by the same writer object: whatever a writer remembers of an earlier dump is stale now
    {
        let cand: Vec<(usize, usize)> = atts.iter().copied().filter(|(a, b)| a != b && !atts.contains(&(*b, *a))).collect();
        if !cand.is_empty() {
            let (a, b) = cand[rng.below(cand.len())];
            let (la, lb) = (names[a].clone(), names[b].clone());
            let changed = catch(|| af.remove_attack(&la, &lb).is_ok() && af.new_attack(&lb, &la).is_ok());
            if let Ok(true) = changed {
                let again = catch(|| write_with(false, |w| with_apx_writer(|wr| wr.write_framework(&af, w))));
                let (n2, a2) = describe(&af);
                if let Ok(Ok(b2)) = again {
                    ctx.eval();
                    ctx.count("frameworks_written_twice_by_one_writer_object");
                    match ref_parse_apx(&b2) {
                        RefParse::Ok(rn, ra) => {
                            let mut ra = ra;
                            ra.sort();
                            ra.dedup();
                            if rn != n2 || ra != a2 {
                                ctx.violation(
                                    "C14/second-dump-of-a-changed-framework-differs",
                                    json!({"reversed_attack": [la, lb], "expected": {"arguments": n2, "attacks": a2}, "parsed": {"arguments": rn, "attacks": ra},
                                           "written": String::from_utf8_lossy(&b2).chars().take(600).collect::<String>()}),
                                    &case,
                                );
                                return;
                            }
                        }
                        other => {
                            ctx.violation("C14/written-framework-not-well-formed", json!({"second_dump": true, "reference": format!("{:?}", other)}), &case);
                            return;
                        }
                    }
                }
            }
        }
    }
    let removed = ops.iter().any(|o| matches!(o, Op::DelArg(_) | Op::DelAtt(..)));
    if removed && !atts.is_empty() {
        let mut h = Hasher64::new();
        h.bytes(&bytes);
        ctx.nontrivial(h.finish());
    }
    ctx.sample("framework", || json!({"written": text, "history_length": ops.len()}));
}

fn eval_c14_answers(ctx: &mut Ctx, rng: &mut Rng) {
    // mostly small label sets; now and then thousands of labels (buffers, batching)
    let n = if rng.pct(2) {
        ctx.count("extensions_over_1000_labels");
        rng.range(1000, 5000)
    } else if rng.pct(5) {
        rng.range(10, 300)
    } else {
        rng.range(0, 9)
    };
    let short = rng.pct(30);
    // ICCMA writer over usize labels
    {
        // labels of every magnitude: small, thousands, around 2^32, 10^10 and beyond, up to usize::MAX
        let huge = rng.pct(10);
        if huge {
            ctx.count("extensions_with_labels_beyond_u32");
        }
        let mut labels: Vec<usize> = (0..n)
            .map(|i| {
                if huge && rng.pct(60) {
                    match rng.below(6) {
                        0 => u32::MAX as usize - 3 + rng.below(8),
                        1 => 9_999_999_990 + rng.below(30),
                        2 => 10usize.pow(rng.range(10, 19) as u32) + rng.below(1000),
                        3 => usize::MAX - rng.below(1000),
                        4 => (rng.next_u64() >> rng.below(30)) as usize,
                        _ => 10usize.pow(rng.range(10, 18) as u32) * rng.range(1, 9),
                    }
                } else if rng.pct(50) {
                    i + 1
                } else {
                    1000 * (i + 1) + rng.below(999)
                }
            })
            .collect();
        if huge {
            let mut seen = BTreeSet::new();
            labels.retain(|l| seen.insert(*l));
        }
        let aset = ArgumentSet::new_with_labels(&labels);
        let keep = if n > 9 { 90 } else { 50 };
        let mut chosen: Vec<&Argument<usize>> = aset.iter().filter(|_| rng.pct(keep)).collect();
        rng.shuffle(&mut chosen);
        let expect: Vec<String> = chosen.iter().map(|a| a.label().to_string()).collect();
        let case = json!({"kind": "iccma-extension", "n_labels": expect.len(), "labels_prefix": expect.iter().take(20).collect::<Vec<_>>()});
        ctx.eval();
        match catch(|| {
            if let Some(k) = failing_write_due() {
                let _ = with_iccma_writer(|wr| wr.write_single_extension(&mut FailsAfter { left: k }, &chosen));
            }
            write_with(short, |w| with_iccma_writer(|wr| wr.write_single_extension(w, &chosen)))
        }) {
            Err(p) => ctx.violation(&format!("C14/panic/iccma-write_single_extension/{}", p.site()), p.to_json(), &case),
            Ok(Err(e)) => ctx.violation("C14/iccma-write_single_extension-failed", json!({"error": e}), &case),
            Ok(Ok(b)) => match parse_w_line(&b) {
                Some(got) if got == expect => {
                    ctx.count("extensions_checked/iccma");
                    if expect.len() <= 12 {
                        let room = rng.below(b.len().max(1));
                        if let Ok(Some(br)) = catch(|| blocks_once_breach(&b, room, |w| with_iccma_writer(|wr| wr.write_single_extension(w, &chosen)))) {
                            ctx.violation("C14/answer-through-a-sink-that-blocks-once/iccma-extension", json!({"breach": br, "room": room}), &case);
                        }
                    }
                    if got.len() >= 2 {
                        let mut h = Hasher64::new();
                        h.bytes(&b);
                        ctx.nontrivial(h.finish());
                    }
                    if expect.len() <= 12 {
                        ctx.sample("iccma-extension", || json!({"labels": expect, "written": String::from_utf8_lossy(&b)}));
                    }
                }
                got => {
                    let first_diff = got.as_ref().map(|g| g.iter().zip(expect.iter()).position(|(a, b)| a != b));
                    ctx.violation(
                        "C14/iccma-extension-does-not-read-back",
                        json!({"labels": expect.len(), "parsed_labels": got.as_ref().map(|g| g.len()), "first_difference_at": first_diff,
                               "written_prefix": String::from_utf8_lossy(&b).chars().take(200).collect::<String>()}),
                        &json!({"kind": "iccma-extension", "n_labels": expect.len(), "labels_prefix": expect.iter().take(20).collect::<Vec<_>>()}),
                    )
                }
            },
        }
        for st in [true, false] {
            ctx.eval();
            let exp: &[u8] = if st { b"YES\n" } else { b"NO\n" };
            match catch(|| write_with(short, |w| with_iccma_writer(|wr| wr.write_acceptance_status(w, st)))) {
                Ok(Ok(b)) if b == exp => ctx.count("status_lines_checked"),
                other => ctx.violation("C14/iccma-status-line", json!({"status": st, "got": format!("{:?}", other.map(|r| r.map(|b| String::from_utf8_lossy(&b).to_string())).map_err(|p| p.msg))}), &json!({"kind": "status"})),
            }
        }
        ctx.eval();
        match catch(|| write_with(short, |w| with_iccma_writer(|wr| wr.write_no_extension(w)))) {
            Ok(Ok(b)) if b == b"NO\n" => ctx.count("status_lines_checked"),
            other => ctx.violation("C14/iccma-no-extension-line", json!({"got": format!("{:?}", other.map(|r| r.map(|b| String::from_utf8_lossy(&b).to_string())).map_err(|p| p.msg))}), &json!({"kind": "no-extension"})),
        }
    }
    // Aspartix writer over string labels
    {
        let mut labels: Vec<String> = (0..n).map(|i| ident_label(i * 3 + rng.below(3))).collect();
        if n >= 2 && n <= 9 && rng.pct(3) {
            // one label of 8-20 KiB (longer than any line buffer a writer might keep)
            let i = rng.below(n);
            labels[i] = format!("L{}", "x".repeat(rng.range(8_000, 20_000)));
            ctx.count("extensions_with_a_label_above_8KiB");
        }
        let aset = ArgumentSet::new_with_labels(&labels);
        // a second argument set with other labels (and therefore overlapping ids): an extension may
        // gather arguments of several frameworks, e.g. the union of the answers for independent parts
        let labels2: Vec<String> = (0..n.min(6)).map(|i| format!("other_{}", i)).collect();
        let aset2 = ArgumentSet::new_with_labels(&labels2);
        let keep = if n > 9 { 90 } else { 50 };
        let mut chosen: Vec<&Argument<String>> = aset.iter().filter(|_| rng.pct(keep)).collect();
        if n >= 1 && n <= 9 && rng.pct(10) {
            chosen.extend(aset2.iter().filter(|_| rng.pct(60)));
            ctx.count("extensions_mixing_two_argument_sets");
        }
        rng.shuffle(&mut chosen);
        let expect: Vec<String> = chosen.iter().map(|a| a.label().clone()).collect();
        let case = json!({"kind": "apx-extension", "n_labels": expect.len(), "labels_prefix": expect.iter().take(20).collect::<Vec<_>>()});
        ctx.eval();
        match catch(|| {
            if let Some(k) = failing_write_due() {
                let _ = with_apx_writer(|wr| wr.write_single_extension(&mut FailsAfter { left: k }, &chosen));
            }
            write_with(short, |w| with_apx_writer(|wr| wr.write_single_extension(w, &chosen)))
        }) {
            Err(p) => ctx.violation(&format!("C14/panic/apx-write_single_extension/{}", p.site()), p.to_json(), &case),
            Ok(Err(e)) => ctx.violation("C14/apx-write_single_extension-failed", json!({"error": e}), &case),
            Ok(Ok(b)) => match parse_bracket_line(&b) {
                Some(got) if got == expect => {
                    ctx.count("extensions_checked/apx");
                    if expect.len() <= 12 {
                        let room = rng.below(b.len().max(1));
                        if let Ok(Some(br)) = catch(|| blocks_once_breach(&b, room, |w| with_apx_writer(|wr| wr.write_single_extension(w, &chosen)))) {
                            ctx.violation("C14/answer-through-a-sink-that-blocks-once/apx-extension", json!({"breach": br, "room": room}), &case);
                        }
                    }
                    if got.len() >= 2 {
                        let mut h = Hasher64::new();
                        h.bytes(&b);
                        ctx.nontrivial(h.finish());
                    }
                    if expect.len() <= 12 {
                        ctx.sample("apx-extension", || json!({"labels": expect, "written": String::from_utf8_lossy(&b)}));
                    }
                }
                got => {
                    let first_diff = got.as_ref().map(|g| g.iter().zip(expect.iter()).position(|(a, b)| a != b));
                    ctx.violation(
                        "C14/apx-extension-does-not-read-back",
                        json!({"labels": expect.len(), "parsed_labels": got.as_ref().map(|g| g.len()), "first_difference_at": first_diff,
                               "written_prefix": String::from_utf8_lossy(&b).chars().take(200).collect::<String>()}),
                        &json!({"kind": "apx-extension", "n_labels": expect.len(), "labels_prefix": expect.iter().take(20).collect::<Vec<_>>()}),
                    )
                }
            },
        }
        for st in [true, false] {
            ctx.eval();
            let exp: &[u8] = if st { b"YES\n" } else { b"NO\n" };
            if let Ok(Some(b)) = catch(|| blocks_once_breach(exp, rng.below(4), |w| with_apx_writer(|wr| wr.write_acceptance_status(w, st)))) {
                ctx.violation("C14/answer-through-a-sink-that-blocks-once/apx-status", json!({"status": st, "breach": b}), &json!({"kind": "status"}));
            }
            if let Ok(Some(b)) = catch(|| blocks_once_breach(exp, rng.below(4), |w| with_iccma_writer(|wr| wr.write_acceptance_status(w, st)))) {
                ctx.violation("C14/answer-through-a-sink-that-blocks-once/iccma-status", json!({"status": st, "breach": b}), &json!({"kind": "status"}));
            }
            ctx.count("answers_through_a_sink_that_blocks_once");
            match catch(|| write_with(short, |w| with_apx_writer(|wr| wr.write_acceptance_status(w, st)))) {
                Ok(Ok(b)) if b == exp => ctx.count("status_lines_checked"),
                other => ctx.violation("C14/apx-status-line", json!({"status": st, "got": format!("{:?}", other.map(|r| r.map(|b| String::from_utf8_lossy(&b).to_string())).map_err(|p| p.msg))}), &json!({"kind": "status"})),
            }
        }
        ctx.eval();
        match catch(|| write_with(short, |w| with_apx_writer(|wr| wr.write_no_extension(w)))) {
            Ok(Ok(b)) if b == b"NO\n" => ctx.count("status_lines_checked"),
            other => ctx.violation("C14/apx-no-extension-line", json!({"got": format!("{:?}", other.map(|r| r.map(|b| String::from_utf8_lossy(&b).to_string())).map_err(|p| p.msg))}), &json!({"kind": "no-extension"})),
        }
    }
}

pub fn run_c14(ctx: &mut Ctx) {
    let n: u64 = ctx.tier.pick(400_000, 6_000_000);
    for i in 0..n {
        if !ctx.mine(i) {
            continue;
        }
        if ctx.out_of_time() {
            return;
        }
        if i % 512 == 0 {
            ctx.case_begin(&json!({"i": i}));
        }
        let mut rng = Rng::from_path(&[ctx.seed, 14, i]);
        let fw = rng.pct(50);
        crate::report::guarded(ctx, |ctx| {
            if fw {
                eval_c14_framework(ctx, &mut rng);
            } else {
                eval_c14_answers(ctx, &mut rng);
            }
        });
    }
}

pub fn replay_c14(ctx: &mut Ctx, case: &Value) -> Result<(), String> {
    // C14 cases are regenerated from the recorded operation list when present
    if case.get("kind").and_then(|k| k.as_str()) == Some("framework") {
        let ops: Vec<Op<String>> = case
            .get("ops")
            .and_then(|x| x.as_array())
            .ok_or("no ops")?
            .iter()
            .map(Op::from_json)
            .collect::<Option<Vec<_>>>()
            .ok_or("bad ops")?;
        let mut af: AAFramework<String> = AAFramework::new_with_argument_set(ArgumentSet::new_with_labels(&[]));
        for op in ops.iter() {
            match op {
                Op::AddArg(l) => af.new_argument(l.clone()),
                Op::DelArg(l) => {
                    let _ = af.remove_argument(l);
                }
                Op::AddAtt(a, b) => {
                    let _ = af.new_attack(a, b);
                }
                Op::DelAtt(a, b) => {
                    let _ = af.remove_attack(a, b);
                }
            }
        }
        let bytes = write_with(false, |w| AspartixWriter::default().write_framework(&af, w))?;
        println!("REPLAY written framework:\n{}", String::from_utf8_lossy(&bytes));
        let (names, atts) = describe(&af);
        match run_reader(false, &bytes) {
            ReadOutcome::Ok(rn, ra) if rn == names && ra == atts => {}
            other => ctx.violation("C14/round-trip-differs", json!({"read_back": format!("{:?}", other)}), case),
        }
        return Ok(());
    }
    Err("only framework cases are replayable from file; extension cases print their labels in the detail".to_string())
}

// =============================================================================================
// Miri entry point (pure-Rust paths only: the store and the two readers)
// =============================================================================================

/// Runs `n_hist` store histories and `n_inputs` reader inputs with the same oracles as C12/C13,
/// without touching the file system (usable under Miri).  Returns (operations, inputs) or the
/// first disagreement.
pub fn miri_smoke(seed: u64, n_hist: u64, n_inputs: u64) -> Result<(u64, u64), String> {
    let mut ops_done = 0u64;
    for i in 0..n_hist {
        let mut rng = Rng::from_path(&[seed, 0x12, i]);
        let len = rng.range(5, 30);
        let nwl: u8 = rng.below(3) as u8;
        if i % 2 == 0 {
            let ops = gen_store_ops::<usize>(&mut rng, len);
            if let Some((sig, d)) = judge_store(&ops, nwl, None) {
                return Err(format!("{} {} {}", sig, d, store_case_json(&ops, nwl)));
            }
            ops_done += ops.len() as u64;
        } else {
            let ops = gen_store_ops::<String>(&mut rng, len);
            if let Some((sig, d)) = judge_store(&ops, nwl, None) {
                return Err(format!("{} {} {}", sig, d, store_case_json(&ops, nwl)));
            }
            ops_done += ops.len() as u64;
        }
    }
    let mut inputs = 0u64;
    for i in 0..n_inputs {
        let mut rng = Rng::from_path(&[seed, 0x13, i]);
        let iccma = rng.pct(50);
        let base: Vec<u8> = if iccma { gen_iccma_text(&mut rng).0 } else { gen_apx_text(&mut rng).0 };
        let mut texts = vec![base.clone()];
        texts.push(corrupt(&mut rng, &base));
        texts.push(gen_listed_illformed(&mut rng, iccma).0);
        for t in texts {
            let reference = if iccma { ref_parse_iccma(&t) } else { ref_parse_apx(&t) };
            if reference == RefParse::TooBig {
                continue;
            }
            inputs += 1;
            match (run_reader(iccma, &t), reference) {
                (ReadOutcome::Panic(m, s), _) => return Err(format!("C13/panic {} at {} on {:?}", m, s, String::from_utf8_lossy(&t))),
                (ReadOutcome::Ok(n, a), RefParse::Ok(rn, ra)) => {
                    let mut ra = ra;
                    ra.sort();
                    ra.dedup();
                    if n != rn || a != ra {
                        return Err(format!("C13/framework-differs on {:?}", String::from_utf8_lossy(&t)));
                    }
                }
                (ReadOutcome::Err(e), RefParse::Ok(..)) => return Err(format!("C13/well-formed-rejected ({}) on {:?}", e, String::from_utf8_lossy(&t))),
                (ReadOutcome::Ok(..), RefParse::Listed(c)) => return Err(format!("C13/ill-formed-accepted ({}) on {:?}", c, String::from_utf8_lossy(&t))),
                _ => {}
            }
        }
    }
    Ok((ops_done, inputs))
}
