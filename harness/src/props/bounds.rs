//! Checks C18 (bounded number of SAT calls) and C19 (equivalence reduction).

use crate::cases::{gen_case, GenLimits, StaticCase};
use crate::gen;
use crate::monitor::{self, Backend, Verdict};
use crate::present::{build_string, build_usize, check_presents, Built, HLabel};
use crate::props::dynamic::{self, DynKind, HOp};
use crate::props::static_eval::{exp_cost_built, targets, Target, EXP_COST_LIMIT};
use crate::refsat::RefSat;
use crate::refsem::{Abs, RefSem, Sem};
use crate::report::{catch, Ctx, Tier};
use crate::rng::{Hasher64, Rng};
use crate::solvers::{ask_fresh, Enc, QKind, Query, SolverType};
#[allow(unused_imports)]
use crate::solvers::cli_dispatch;
use crustabri::aa::{AAFramework, ArgumentSet};
use crustabri::utils::EquivalencyComputer;
use serde_json::{json, Value};
use std::collections::{BTreeMap, BTreeSet};

// =============================================================================================
// C18
// =============================================================================================

/// The bound of the property text for one component.
fn component_bound(rs: &RefSem, t: &Target, enc: Enc) -> u64 {
    let n = rs.n as u64;
    let co = rs.co.len() as u64;
    let pr = rs.pr.len() as u64;
    match t.ty {
        SolverType::Grounded => 0,
        SolverType::Complete | SolverType::Stable => 2,
        SolverType::Preferred => {
            let base = if enc == Enc::AuxAdm { rs.adm.len() as u64 } else { co };
            base + pr + 1
        }
        SolverType::Ideal => 2 * co + pr + 2,
        SolverType::SemiStable => (n + 2) * co + 3,
        SolverType::Stage => (n + 2) * (rs.cf.len() as u64) + 3,
    }
}

/// The arguments of the components that contain a listed argument.
fn merged_members(abs: &Abs, args: &[usize]) -> Vec<usize> {
    let mut m: Vec<usize> = Vec::new();
    for c in abs.components().iter() {
        if args.iter().any(|a| c.contains(a)) {
            m.extend(c.iter().copied());
        }
    }
    m.sort();
    m
}

/// The bound for a query over a *list* of arguments, in the most lenient reading: the solvers (all
/// but the stable one) merge the components of the listed arguments into one sub-framework and work
/// on that, so the merged sub-framework counts as one component; the other components count one by
/// one.  The larger of this and the per-component sum is used.  None: merged part beyond the oracle.
fn list_bound(abs: &Abs, t: &Target, enc: Enc, args: &[usize], per_component_sum: u64) -> Result<Option<u64>, String> {
    let merged = merged_members(abs, args);
    if merged.len() > 16 {
        return Ok(None);
    }
    let mut sum = 0u64;
    let rs = RefSem::new(&abs.induced(&merged)).map_err(|e| e.0)?;
    sum += component_bound(&rs, t, enc);
    for c in abs.components().iter() {
        if c.iter().any(|a| merged.contains(a)) {
            continue;
        }
        let rs = RefSem::new(&abs.induced(c)).map_err(|e| e.0)?;
        sum += component_bound(&rs, t, enc);
    }
    Ok(Some(sum.max(per_component_sum)))
}

fn total_bound(abs: &Abs, t: &Target, enc: Enc) -> Result<(u64, usize), String> {
    let comps = abs.components();
    let mut sum = 0u64;
    for c in comps.iter() {
        let rs = RefSem::new(&abs.induced(c)).map_err(|e| e.0)?;
        sum += component_bound(&rs, t, enc);
    }
    Ok((sum, comps.len()))
}

/// The set of SAT variables that represent arguments / range variables for `n` compact ids.
fn var_blocks<T: HLabel>(enc: Enc, n: usize, with_range: bool) -> (BTreeSet<usize>, BTreeSet<usize>) {
    let labels: Vec<T> = (0..n).map(T::nth).collect();
    let af = AAFramework::new_with_argument_set(ArgumentSet::new_with_labels(&labels));
    let e = enc.make::<T>();
    let argvars: BTreeSet<usize> = af
        .argument_set()
        .iter()
        .map(|a| isize::from(e.arg_to_lit(a)).unsigned_abs())
        .collect();
    let rangevars: BTreeSet<usize> = if with_range {
        let fr = e.first_range_var(n);
        (fr..fr + n).collect()
    } else {
        BTreeSet::new()
    };
    (argvars, rangevars)
}

fn c18_static<T: HLabel>(ctx: &mut Ctx, case: &StaticCase, built: &Built<T>, rng: &mut Rng, focus: Option<&Value>) {
    if check_presents(built, &case.abs).is_err() {
        ctx.inconclusive("presentation-mismatch");
        return;
    }
    let cost = exp_cost_built(built);
    let connected = case.abs.is_connected() && case.abs.n > 0;
    for t in targets().iter() {
        if t.ty == SolverType::Grounded {
            continue;
        }
        if let Some(f) = focus {
            if f.get("problem").and_then(|p| p.as_str()) != Some(&t.problem()) {
                continue;
            }
        }
        for enc in t.ty.encoders(t.kind).iter().copied() {
            if enc == Enc::ExpCo && cost > EXP_COST_LIMIT {
                continue;
            }
            if let Some(f) = focus {
                if f.get("encoder").and_then(|p| p.as_str()) != Some(enc.name()) {
                    continue;
                }
            }
            let (bound, n_comps) = match total_bound(&case.abs, t, enc) {
                Ok(b) => b,
                Err(e) => {
                    ctx.harness_error(&e);
                    return;
                }
            };
            let queries: Vec<Query> = if t.kind == QKind::SE {
                vec![Query { kind: QKind::SE, args: vec![], cert: false }]
            } else if case.abs.n == 0 {
                vec![]
            } else if let Some(q) = focus.and_then(|f| f.get("query")) {
                vec![Query {
                    kind: t.kind,
                    args: q["args"].as_array().map(|a| a.iter().filter_map(|x| x.as_u64().map(|x| x as usize)).collect()).unwrap_or_default(),
                    cert: q["cert"].as_bool().unwrap_or(false),
                }]
            } else {
                let mut v = Vec::new();
                let picks = if case.abs.n <= 4 { (0..case.abs.n).collect::<Vec<_>>() } else { (0..3).map(|_| rng.below(case.abs.n)).collect() };
                for a in picks {
                    v.push(Query { kind: t.kind, args: vec![a], cert: rng.pct(50) });
                }
                if case.family == "many-components" {
                    // the unattacked arguments (accepted under every semantics), with certificate: the
                    // certificate has to be completed on all the other components
                    for a in 0..case.abs.n {
                        if !case.abs.att.iter().any(|(x, y)| *x == a || *y == a) {
                            v.push(Query { kind: t.kind, args: vec![a], cert: true });
                        }
                    }
                }
                // a long list (4-10 arguments, with repetitions, components interleaved): the bound still is
                // per component, not per listed argument
                if case.abs.n >= 4 && rng.pct(30) {
                    let k = rng.range(4, 10);
                    let mut l: Vec<usize> = (0..k).map(|_| rng.below(case.abs.n)).collect();
                    while l.len() > 2 && merged_members(&case.abs, &l).len() > 16 {
                        l.pop();
                    }
                    v.push(Query { kind: t.kind, args: l, cert: rng.pct(50) });
                    ctx.count("queries/long-argument-lists");
                }
                // lists of 2-3 arguments: the bound is per component, whatever the number of listed arguments
                if case.abs.n >= 2 {
                    let k = 2 + rng.below(2);
                    v.push(Query { kind: t.kind, args: (0..k).map(|_| rng.below(case.abs.n)).collect(), cert: rng.pct(50) });
                    ctx.count("queries/argument-lists");
                }
                v
            };
            let per_component_sum = bound;
            for q in queries {
                // a list of arguments: the components of the listed arguments count as one (merged) component
                let bound: u64 = if q.args.len() >= 2 {
                    match list_bound(&case.abs, t, enc, &q.args, per_component_sum) {
                        Ok(Some(b)) => b,
                        Ok(None) => {
                            ctx.inconclusive("merged-sub-framework-beyond-the-oracle");
                            continue;
                        }
                        Err(e) => {
                            ctx.harness_error(&e);
                            return;
                        }
                    }
                } else {
                    per_component_sum
                };
                ctx.eval();
                let h = monitor::new_handle();
                {
                    let mut s = h.borrow_mut();
                    s.cap = Some((10 * bound + 64) as usize);
                    s.keep_models = connected;
                }
                let r = ask_fresh(built, t.ty, enc, monitor::monitored_factory(Backend::Cadical, h.clone()), &q);
                let s = h.borrow();
                let calls = s.n_calls as u64;
                ctx.count(&format!("queries/{}", t.problem()));
                let detail = |what: &str| -> Value {
                    json!({"problem": t.problem(), "encoder": enc.name(), "query": q.to_json(), "sat_calls": calls, "bound": bound,
                           "components": n_comps, "what": what})
                };
                if s.cap_hit {
                    drop(s);
                    ctx.violation(
                        &format!("C18/sat-call-cap-exceeded/{}/{}", t.problem(), enc.name()),
                        detail("the query was stopped at 10 x bound + 64 SAT calls: it does not terminate within any reasonable multiple of its bound"),
                        &case.to_json(),
                    );
                    continue;
                }
                if r.is_err() {
                    // a panic is not this property's business (C01-C04 report it)
                    ctx.inconclusive("query-panicked");
                    continue;
                }
                if calls > bound {
                    drop(s);
                    ctx.violation(
                        &format!("C18/bound-exceeded/{}/{}", t.problem(), enc.name()),
                        detail("more SAT calls than the bound stated in the property"),
                        &case.to_json(),
                    );
                    continue;
                }
                // histogram of calls / bound
                if bound > 0 {
                    let ratio = (calls * 10) / bound;
                    ctx.count(&format!("calls_over_bound_decile/{}", ratio.min(10)));
                    ctx.maximum("max_calls_times_100_over_bound", calls * 100 / bound);
                }
                ctx.maximum("longest_enumeration_calls", calls);
                if calls >= 5 {
                    ctx.count("searches_with_at_least_5_calls");
                }
                // fine-grained checks on connected frameworks
                if connected && matches!(t.ty, SolverType::Preferred | SolverType::Ideal | SolverType::SemiStable | SolverType::Stage) {
                    let with_range = matches!(t.ty, SolverType::SemiStable | SolverType::Stage);
                    let (argvars, rangevars) = var_blocks::<T>(enc.resolved(t.ty), case.abs.n, with_range);
                    // group satisfiable calls by (instance, selector variable)
                    let mut groups: BTreeMap<(usize, usize), Vec<&crate::monitor::CallRecord>> = BTreeMap::new();
                    for c in s.calls.iter() {
                        let negs: Vec<usize> = c
                            .assumptions
                            .iter()
                            .filter(|l| **l < 0)
                            .map(|l| l.unsigned_abs())
                            .filter(|v| !argvars.contains(v) && !rangevars.contains(v))
                            .collect();
                        if negs.len() == 1 && c.verdict == Verdict::Sat {
                            groups.entry((c.instance, negs[0])).or_default().push(c);
                        }
                    }
                    let mut problem: Option<(String, Value)> = None;
                    for ((inst, sel), calls_g) in groups.iter() {
                        if !with_range {
                            // no candidate (projection on the argument variables) twice in one search
                            let mut seen: BTreeSet<Vec<bool>> = BTreeSet::new();
                            for c in calls_g.iter() {
                                if let Some(m) = &c.model {
                                    let proj: Vec<bool> = argvars.iter().map(|v| m.get(*v - 1).copied().flatten() == Some(true)).collect();
                                    if !seen.insert(proj.clone()) {
                                        problem = Some((
                                            format!("C18/candidate-examined-twice/{}/{}", t.problem(), enc.name()),
                                            json!({"instance": inst, "selector_var": sel, "candidate_on_argument_variables": proj}),
                                        ));
                                    }
                                }
                            }
                            ctx.count_by("candidates_checked_for_repetition", calls_g.len() as u64);
                        } else {
                            // growth calls: positive assumptions are range variables; the model's range must be a strict superset
                            for c in calls_g.iter() {
                                let pos: BTreeSet<usize> = c.assumptions.iter().filter(|l| **l > 0).map(|l| *l as usize).collect();
                                if !pos.iter().all(|v| rangevars.contains(v)) {
                                    continue; // not a growth call
                                }
                                if let Some(m) = &c.model {
                                    let true_range: BTreeSet<usize> = rangevars.iter().copied().filter(|v| m.get(*v - 1).copied().flatten() == Some(true)).collect();
                                    ctx.count("range_growth_steps_checked");
                                    if !(pos.is_subset(&true_range) && true_range.len() > pos.len()) {
                                        problem = Some((
                                            format!("C18/range-not-strictly-growing/{}/{}", t.problem(), enc.name()),
                                            json!({"instance": inst, "assumed_range": pos, "model_range": true_range}),
                                        ));
                                    }
                                }
                            }
                        }
                    }
                    if let Some((sig, d)) = problem {
                        drop(s);
                        let mut dd = detail("fine-grained search monitor");
                        dd["observation"] = d;
                        ctx.violation(&sig, dd, &case.to_json());
                        continue;
                    }
                }
                // bounded progress under a backend that dies at call j (and stays dead): the query must stop,
                // not keep calling; decided on logical steps by the same cap
                if calls >= 1 && focus.is_none() && rng.pct(20) {
                    drop(s);
                    let j = rng.range(1, calls as usize);
                    let hf = monitor::new_handle();
                    {
                        let mut sf = hf.borrow_mut();
                        sf.cap = Some((10 * bound + 64) as usize);
                        sf.keep_models = false;
                        sf.keep_clauses = false;
                        sf.inject_unknown_from = Some(j);
                    }
                    let _ = ask_fresh(built, t.ty, enc, monitor::monitored_factory(Backend::Cadical, hf.clone()), &q);
                    ctx.eval();
                    ctx.count("queries/with-backend-dying-at-call-j");
                    if hf.borrow().cap_hit {
                        let calls_f = hf.borrow().n_calls;
                        ctx.violation(
                            &format!("C18/sat-call-cap-exceeded-after-backend-failure/{}/{}", t.problem(), enc.name()),
                            json!({"problem": t.problem(), "encoder": enc.name(), "query": q.to_json(), "backend_fails_from_call": j,
                                   "sat_calls": calls_f, "bound": bound, "what": "the backend answers Unknown from call j on; the query kept calling it beyond 10 x bound + 64"}),
                            &case.to_json(),
                        );
                        continue;
                    }
                }
                if calls >= 3 {
                    let qs = format!("{:?}{}", q.args, q.cert);
                    ctx.nontrivial(gen::case_hash(&case.abs, &[&t.problem(), enc.name(), &qs]));
                }
                let key = format!("{}/{}", t.problem(), if calls >= 3 { "multi-call" } else { "short" });
                ctx.sample(&key, || json!({"case": case.short(), "problem": t.problem(), "encoder": enc.name(), "query": q.to_json(), "sat_calls": calls, "bound": bound}));
            }
        }
    }
}

fn c18_dynamic(ctx: &mut Ctx, rng: &mut Rng, replay: Option<&dynamic::HistCase>) {
    let case = match replay {
        Some(c) => c.clone(),
        None => {
            let shape = dynamic::SHAPES[rng.below(dynamic::SHAPES.len())];
            dynamic::gen_history(rng, &DynKind::Pr, shape, 12, 0)
        }
    };
    let h = monitor::new_handle();
    let mut solver = match dynamic::make_solver(&case.kind, h.clone(), Backend::Cadical) {
        Ok(s) => s,
        Err(_) => return,
    };
    let mut shadow = dynamic::Shadow::default();
    for (step, op) in case.ops.iter().enumerate() {
        match op {
            HOp::Upd(o) => {
                if shadow.classify(o) != dynamic::OpClass::Valid {
                    continue;
                }
                if !matches!(solver.update(o), Ok(Ok(()))) {
                    return;
                }
                shadow.apply(o);
            }
            HOp::Query(cred, l, cert) => {
                if *cred || !shadow.live.contains(l) {
                    continue;
                }
                let (g, _) = shadow.graph();
                let rs = match RefSem::new(&g) {
                    Ok(r) => r,
                    Err(e) => {
                        ctx.harness_error(&e.0);
                        return;
                    }
                };
                let bound = rs.co.len() as u64 + rs.pr.len() as u64 + 1;
                let before = h.borrow().n_calls;
                h.borrow_mut().cap = Some(before + (10 * bound + 64) as usize);
                ctx.eval();
                let r = solver.query(false, *l, *cert);
                let calls = (h.borrow().n_calls - before) as u64;
                ctx.count("queries/dynamic-DS-PR");
                let detail = json!({"step": step, "query": op.to_json(), "framework": shadow.to_json(), "sat_calls": calls, "bound": bound});
                if h.borrow().cap_hit {
                    ctx.violation("C18/sat-call-cap-exceeded/dynamic-DS-PR", detail, &json!({"sub": "dynamic", "history": case.to_json()}));
                    return;
                }
                if r.is_err() {
                    ctx.inconclusive("query-panicked");
                    return;
                }
                if calls > bound {
                    ctx.violation("C18/bound-exceeded/dynamic-DS-PR", detail, &json!({"sub": "dynamic", "history": case.to_json()}));
                    return;
                }
                if bound > 0 {
                    ctx.maximum("max_calls_times_100_over_bound_dynamic", calls * 100 / bound);
                }
                if calls >= 3 {
                    let mut hh = Hasher64::new();
                    hh.str(&serde_json::to_string(&case.to_json()).unwrap());
                    hh.usize(step);
                    ctx.nontrivial(hh.finish());
                }
            }
        }
    }
}

/// The same bound observed at the process boundary: SAT calls of `crustabri solve` are counted
/// from the `launching SAT solver` lines it logs at level info (one per call), for the encoder the
/// binary selects by itself or on request.
fn c18_cli(ctx: &mut Ctx, rng: &mut Rng, abs: &Abs, family: &str) {
    use crate::props::cli::run as run_bin;
    if abs.n == 0 || !abs.is_connected() {
        return;
    }
    let rs = match RefSem::new(abs) {
        Ok(r) => r,
        Err(e) => {
            ctx.harness_error(&e.0);
            return;
        }
    };
    let dir = ctx.out_dir.join(format!("c18-cli-{}", ctx.shard));
    let _ = std::fs::create_dir_all(&dir);
    let file = dir.join("instance.af");
    let mut text = format!("p af {}\n", abs.n);
    for (a, b) in abs.att.iter() {
        text.push_str(&format!("{} {}\n", a + 1, b + 1));
    }
    if std::fs::write(&file, &text).is_err() {
        ctx.harness_error("cannot write instance");
        return;
    }
    let bin = ctx.repo_bin_dir.join("crustabri");
    let exp_ok = crate::props::static_eval::exp_cost(abs) <= 2000;
    // (problem, needs argument)
    let problems = ["DS-PR", "SE-PR", "DS-ID", "DC-ID", "SE-ID", "DC-SST", "DS-SST", "SE-SST", "DC-STG", "DS-STG", "DC-CO", "DC-ST", "DS-ST", "SE-ST"];
    let picked: Vec<&str> = {
        let mut v = vec!["DS-PR", "SE-PR", "DS-ID"];
        for _ in 0..3 {
            v.push(*rng.pick(&problems));
        }
        v
    };
    for prob in picked {
        let (q, s) = prob.split_once('-').unwrap();
        let sem = Sem::from_name(s).unwrap();
        let kind = crate::solvers::QKind::from_name(q).unwrap();
        let ty = crate::solvers::cli_dispatch(kind, sem);
        for enc_flag in [None, Some("exp"), Some("hybrid")] {
            if enc_flag == Some("exp") && !exp_ok {
                continue;
            }
            if enc_flag.is_some() && !rng.pct(35) {
                continue;
            }
            // the encoder documented for this problem and flag
            let enc = match (ty, kind, enc_flag) {
                (SolverType::Stable, _, _) => Enc::Stable,
                (SolverType::Stage, _, None) | (SolverType::Stage, _, Some("exp")) | (SolverType::Stage, _, Some("hybrid")) => Enc::ExpCf,
                (SolverType::Preferred, QKind::SE, None) => Enc::AuxAdm,
                (_, _, None) => Enc::AuxCo,
                (_, _, Some("exp")) => Enc::ExpCo,
                (_, _, _) => Enc::Hybrid,
            };
            let t = Target { ty, kind, sem, cert_sem: sem };
            let bound = component_bound(&rs, &t, enc);
            let args_to_ask: Vec<Option<usize>> = if kind == QKind::SE {
                vec![None]
            } else if prob == "DS-PR" || prob == "DS-ID" {
                (0..abs.n).map(Some).collect()
            } else {
                vec![Some(rng.below(abs.n)), Some(rng.below(abs.n))]
            };
            for a in args_to_ask {
                let mut args: Vec<String> = vec!["solve".into(), "-f".into(), file.to_string_lossy().to_string(), "-p".into(), prob.into(), "--logging-level".into(), "info".into()];
                if let Some(a) = a {
                    args.push("-a".into());
                    args.push((a + 1).to_string());
                }
                if let Some(e) = enc_flag {
                    args.push("--encoding".into());
                    args.push(e.into());
                }
                if rng.pct(30) {
                    args.push("-c".into());
                }
                let out = match run_bin(&bin, &args) {
                    Some(o) => o,
                    None => {
                        ctx.inconclusive("cli-run-failed-or-timed-out");
                        continue;
                    }
                };
                ctx.eval();
                ctx.count("cli_sat_call_counts");
                if out.code != Some(0) {
                    ctx.inconclusive("cli-run-non-zero-exit");
                    continue;
                }
                let calls = out.stdout.matches("launching SAT solver").count() as u64;
                ctx.maximum("cli_longest_enumeration_calls", calls);
                if bound > 0 {
                    ctx.maximum("cli_max_calls_times_100_over_bound", calls * 100 / bound);
                }
                if calls > bound {
                    ctx.violation(
                        &format!("C18/cli/bound-exceeded/{}/{}", prob, enc_flag.unwrap_or("default")),
                        json!({"problem": prob, "invocation": args, "sat_calls_logged": calls, "bound": bound, "family": family,
                               "complete_sets": rs.co.len(), "admissible_sets": rs.adm.len(), "preferred": rs.pr.len(), "instance": text}),
                        &json!({"sub": "cli", "graph": gen::abs_to_json(abs), "family": family}),
                    );
                    return;
                }
                if calls >= 3 {
                    let s = format!("{}{:?}{:?}", prob, a, enc_flag);
                    ctx.nontrivial(gen::case_hash(abs, &["cli", &s]));
                }
            }
        }
    }
}

/// Termination at the process boundary on inputs whose encoding-size arithmetic is extreme
/// (defender-set products beyond 2^64).  No bound can be computed by brute force at this size, so
/// the only observation is that the plain release binary answers; a watchdog that fires is
/// *inconclusive* (runtime monitoring cannot decide non-termination) and makes the run exit 2.
fn c18_cli_termination(ctx: &mut Ctx, rng: &mut Rng) {
    use crate::props::cli::run as run_bin;
    let g = gen::heavy_fan_in(rng);
    let dir = ctx.out_dir.join(format!("c18-cli-{}", ctx.shard));
    let _ = std::fs::create_dir_all(&dir);
    let file = dir.join("fan-in.af");
    let mut text = format!("p af {}\n", g.n);
    for (a, b) in g.att.iter() {
        text.push_str(&format!("{} {}\n", a + 1, b + 1));
    }
    if std::fs::write(&file, &text).is_err() {
        return;
    }
    let bin = ctx.repo_bin_dir.join("crustabri");
    for (prob, enc) in [("DC-CO", Some("hybrid")), ("DS-PR", Some("hybrid")), ("SE-PR", None), ("DC-SST", Some("hybrid")), ("SE-ID", Some("hybrid")), ("DC-STG", None)] {
        let a = 1 + rng.below(g.n);
        let mut args: Vec<String> = vec!["solve".into(), "-f".into(), file.to_string_lossy().to_string(), "-p".into(), prob.into(), "--logging-level".into(), "info".into()];
        if !prob.starts_with("SE") {
            args.push("-a".into());
            args.push(a.to_string());
        }
        if let Some(e) = enc {
            args.push("--encoding".into());
            args.push(e.into());
        }
        ctx.eval();
        match run_bin(&bin, &args) {
            Some(o) if o.code == Some(0) => {
                ctx.count("cli_extreme_fan_in_runs_terminated");
                ctx.maximum("cli_extreme_fan_in_sat_calls", o.stdout.matches("launching SAT solver").count() as u64);
            }
            Some(_) => ctx.inconclusive("cli-run-non-zero-exit"),
            None => {
                ctx.inconclusive("cli-run-failed-or-timed-out");
                eprintln!("watchdog: crustabri {:?} did not finish within 60 s on a fan-in instance of {} arguments", args, g.n);
            }
        }
    }
}

pub fn run_c18(ctx: &mut Ctx) {
    let q = ctx.tier == Tier::Quick;
    let lim = GenLimits { er_max: 10, ..Default::default() };
    let schedule: Vec<(&str, u64)> = vec![
        ("all3", 512),
        ("er", if q { 8_000 } else { 120_000 }),
        ("lattice", if q { 6_000 } else { 90_000 }),
        ("dense", if q { 2_000 } else { 30_000 }),
        ("union", if q { 2_400 } else { 40_000 }),
        ("many-components", if q { 320 } else { 5_000 }),
        ("dup", if q { 1_000 } else { 15_000 }),
        ("dynamic", if q { 12_000 } else { 200_000 }),
        ("cli-adm-rich", if q { 48 } else { 1_500 }),
        ("cli-sparse", if q { 32 } else { 1_500 }),
        ("cli-fan-in", if q { 8 } else { 100 }),
    ];
    let mut gi = 0u64;
    for (family, count) in schedule {
        for i in 0..count {
            gi += 1;
            if !ctx.mine(gi) {
                continue;
            }
            if ctx.out_of_time() {
                return;
            }
            let mut rng = Rng::from_path(&[ctx.seed, 18, crate::cases::fam_hash(family), i]);
            if gi % 16 == 0 {
                ctx.case_begin(&json!({"family": family, "i": i}));
            }
            if family == "dynamic" {
                crate::report::guarded(ctx, |ctx| c18_dynamic(ctx, &mut rng, None));
                continue;
            }
            if family == "cli-fan-in" {
                ctx.case_begin(&json!({"family": family, "i": i}));
                crate::report::guarded(ctx, |ctx| c18_cli_termination(ctx, &mut rng));
                continue;
            }
            if family.starts_with("cli-") {
                let g = if family == "cli-adm-rich" {
                    let k = rng.range(3, 6);
                    gen::adm_rich(&mut rng, k)
                } else {
                    // sparse connected graph: few complete extensions, many admissible sets
                    let n = rng.range(8, 12);
                    let mut g = gen::er(&mut rng, n, 12, 5);
                    gen::connect(&mut g, &mut rng);
                    g
                };
                ctx.case_begin(&json!({"family": family, "i": i}));
                crate::report::guarded(ctx, |ctx| c18_cli(ctx, &mut rng, &g, family));
                continue;
            }
            let mut case = gen_case(family, i, ctx.seed, &lim);
            if family == "er" && !case.abs.is_connected() {
                // the single tight bound needs a connected framework
                gen::connect(&mut case.abs, &mut rng);
                let kind = crate::present::random_kind(&mut rng, &case.abs);
                case.pres = crate::present::present(&case.abs, kind, &mut rng);
            }
            if case.abs.n > 10 && family != "many-components" {
                continue;
            }
            ctx.count(&format!("cases/{}/{}", family, if case.abs.is_connected() { "connected" } else { "several-components" }));
            crate::report::guarded(ctx, |ctx| {
                if case.pres.is_usize() {
                    if let Ok(b) = build_usize(&case.pres) {
                        c18_static(ctx, &case, &b, &mut rng, None);
                    }
                } else if let Ok(b) = build_string(&case.pres) {
                    c18_static(ctx, &case, &b, &mut rng, None);
                }
            });
        }
    }
}

pub fn replay_c18(ctx: &mut Ctx, case: &Value, detail: &Value) -> Result<(), String> {
    let mut rng = Rng::new(18);
    if case.get("sub").and_then(|s| s.as_str()) == Some("cli") {
        let g = gen::abs_from_json(&case["graph"]).ok_or("bad graph")?;
        for k in 0..4 {
            let mut r = Rng::new(180 + k);
            c18_cli(ctx, &mut r, &g, "replay");
        }
        return Ok(());
    }
    if case.get("sub").and_then(|s| s.as_str()) == Some("dynamic") {
        let h = dynamic::HistCase::from_json(&case["history"]).ok_or("bad history")?;
        c18_dynamic(ctx, &mut rng, Some(&h));
        return Ok(());
    }
    let c = StaticCase::from_json(case).ok_or("bad case")?;
    if c.pres.is_usize() {
        c18_static(ctx, &c, &build_usize(&c.pres)?, &mut rng, Some(detail));
    } else {
        c18_static(ctx, &c, &build_string(&c.pres)?, &mut rng, Some(detail));
    }
    Ok(())
}

// =============================================================================================
// C19
// =============================================================================================

fn c19_eval<T: HLabel>(ctx: &mut Ctx, case: &StaticCase, built: &Built<T>) {
    if check_presents(built, &case.abs).is_err() {
        ctx.inconclusive("presentation-mismatch");
        return;
    }
    let n = case.abs.n;
    ctx.eval();
    let cj = case.to_json();
    // classes through the two mappings
    let r = catch(|| {
        let ec = EquivalencyComputer::new(&built.af);
        let reduced: Vec<(T, usize)> = ec.reduced_af().argument_set().iter().map(|a| (a.label().clone(), a.id())).collect();
        // init -> reduced label
        let mut to_reduced: Vec<T> = Vec::with_capacity(n);
        for i in 0..n {
            let a = built.af.argument_set().get_argument(&built.labels[i]).unwrap();
            to_reduced.push(ec.init_to_reduced_arg(a).label().clone());
        }
        // reduced -> init members
        let mut members: Vec<(T, Vec<usize>)> = Vec::new();
        for ra in ec.reduced_af().argument_set().iter() {
            let ms: Vec<usize> = ec
                .reduced_arg_to_init_args(ra)
                .iter()
                .map(|m| *built.index_of.get(m.label()).unwrap_or(&usize::MAX))
                .collect();
            members.push((ra.label().clone(), ms));
        }
        let reduced_attacks = ec.reduced_af().n_attacks();
        (reduced, to_reduced, members, reduced_attacks)
    });
    let (reduced, to_reduced, members, _ra) = match r {
        Ok(x) => x,
        Err(p) => {
            ctx.violation(&format!("C19/panic/{}", p.site()), p.to_json(), &cj);
            return;
        }
    };
    // totality and inverse at class level
    let mut class_of = vec![usize::MAX; n];
    for (ci, (rl, ms)) in members.iter().enumerate() {
        for m in ms {
            if *m == usize::MAX {
                ctx.violation("C19/class-member-not-an-initial-argument", json!({"reduced": rl.to_json()}), &cj);
                return;
            }
            if class_of[*m] != usize::MAX {
                ctx.violation("C19/argument-in-two-classes", json!({"argument": m}), &cj);
                return;
            }
            class_of[*m] = ci;
            if &to_reduced[*m] != rl {
                ctx.violation(
                    "C19/mappings-not-inverse",
                    json!({"argument": m, "init_to_reduced": to_reduced[*m].to_json(), "listed_in_class_of": rl.to_json()}),
                    &cj,
                );
                return;
            }
        }
    }
    if let Some(a) = (0..n).find(|a| class_of[*a] == usize::MAX) {
        ctx.violation("C19/argument-in-no-class", json!({"argument": a}), &cj);
        return;
    }
    for (i, rl) in to_reduced.iter().enumerate() {
        if !reduced.iter().any(|(l, _)| l == rl) {
            ctx.violation("C19/init_to_reduced-not-a-reduced-argument", json!({"argument": i, "mapped_to": rl.to_json()}), &cj);
            return;
        }
    }
    let merged_classes: Vec<&Vec<usize>> = members.iter().map(|(_, m)| m).filter(|m| m.len() >= 2).collect();
    ctx.count(if merged_classes.is_empty() { "cases/nothing-merged" } else { "cases/something-merged" });
    // the oracle: same complete extensions
    if n <= 14 {
        let rs = match RefSem::new(&case.abs) {
            Ok(r) => r,
            Err(e) => {
                ctx.harness_error(&e.0);
                return;
            }
        };
        for ms in merged_classes.iter() {
            let mask: u32 = ms.iter().fold(0, |m, a| m | (1 << a));
            for e in rs.co.iter() {
                let x = e & mask;
                if x != 0 && x != mask {
                    ctx.violation(
                        "C19/merged-arguments-separated-by-a-complete-extension",
                        json!({"class": ms, "complete_extension": crate::refsem::set_of(*e)}),
                        &cj,
                    );
                    return;
                }
            }
        }
        // "in particular": grounded arguments together, the arguments they defeat together
        let gr = crate::refsem::set_of(rs.gr);
        if gr.len() >= 2 && gr.iter().any(|a| class_of[*a] != class_of[gr[0]]) {
            ctx.violation("C19/grounded-arguments-not-merged-together", json!({"grounded": gr}), &cj);
            return;
        }
        let defeated = crate::refsem::set_of(rs.plus(rs.gr));
        if defeated.len() >= 2 && defeated.iter().any(|a| class_of[*a] != class_of[defeated[0]]) {
            ctx.violation("C19/arguments-defeated-by-grounded-not-merged-together", json!({"defeated": defeated}), &cj);
            return;
        }
        if !merged_classes.is_empty() {
            if rs.co.len() >= 2 {
                ctx.count("cases/merged-with-several-complete-extensions");
                ctx.nontrivial(gen::case_hash(&case.abs, &[case.pres.kind()]));
            }
            ctx.sample(if rs.co.len() >= 2 { "merge/several-complete" } else { "merge/one-complete" }, || {
                json!({"case": case.short(), "graph": gen::abs_to_json(&case.abs), "classes": members.iter().map(|(_, m)| m.clone()).collect::<Vec<_>>(), "complete_extensions": rs.co.len()})
            });
        }
    } else {
        let mut sat = RefSat::new(&case.abs);
        // "in particular": grounded arguments together, the arguments they defeat together
        // (polynomial, so checked at any size)
        let gr = sat.grounded_set();
        if gr.len() >= 2 && gr.iter().any(|a| class_of[*a] != class_of[gr[0]]) {
            let odd = gr.iter().find(|a| class_of[**a] != class_of[gr[0]]).copied();
            ctx.violation(
                "C19/grounded-arguments-not-merged-together",
                json!({"grounded_size": gr.len(), "first_grounded_argument": gr[0], "argument_in_another_class": odd, "n": n}),
                &if n <= 400 { cj.clone() } else { json!({"family": case.family, "n": n, "note": "graph too large to store; regenerate from the family"}) },
            );
            return;
        }
        let mut in_gr = vec![false; n];
        for a in gr.iter() {
            in_gr[*a] = true;
        }
        let mut defeated: Vec<usize> = case.abs.att.iter().filter(|(a, _)| in_gr[*a]).map(|(_, b)| *b).collect();
        defeated.sort();
        defeated.dedup();
        if defeated.len() >= 2 && defeated.iter().any(|a| class_of[*a] != class_of[defeated[0]]) {
            ctx.violation(
                "C19/arguments-defeated-by-grounded-not-merged-together",
                json!({"defeated_size": defeated.len(), "n": n}),
                &if n <= 400 { cj.clone() } else { json!({"family": case.family, "n": n, "note": "graph too large to store; regenerate from the family"}) },
            );
            return;
        }
        ctx.maximum("largest_framework", n as u64);
        if n > 1000 {
            ctx.count("cases/huge");
            ctx.nontrivial(gen::case_hash(&Abs::new(2, vec![(0, 1)]), &[&case.family, &n.to_string()]));
            return; // pairwise SAT separation is not attempted at this size
        }
        for ms in merged_classes.iter() {
            // consecutive pairs suffice (equivalence is transitive)
            for w in ms.windows(2) {
                ctx.count("refsat_pair_checks");
                let a = sat.find(crate::refsat::Base::Co, Some(&[w[0]]), &[w[1]], None);
                let b = sat.find(crate::refsat::Base::Co, Some(&[w[1]]), &[w[0]], None);
                if let Some(e) = a.or(b) {
                    ctx.violation(
                        "C19/merged-arguments-separated-by-a-complete-extension",
                        json!({"class": ms, "pair": w, "complete_extension": e}),
                        &cj,
                    );
                    return;
                }
            }
        }
        if !merged_classes.is_empty() {
            ctx.count("cases/big-merged");
            ctx.nontrivial(gen::case_hash(&case.abs, &[case.pres.kind()]));
        }
    }
}

pub fn run_c19(ctx: &mut Ctx) {
    let q = ctx.tier == Tier::Quick;
    let lim = GenLimits { er_max: 10, big_min: 20, big_max: 100 };
    let schedule: Vec<(&str, u64)> = vec![
        ("all2", 16),
        ("all3", 512),
        ("all4", if q { 0 } else { 65_536 }),
        ("er", if q { 120_000 } else { 1_500_000 }),
        ("rings", if q { 4_800 } else { 48_000 }),
        ("lattice", if q { 60_000 } else { 700_000 }),
        ("union", if q { 45_000 } else { 500_000 }),
        ("dup", if q { 30_000 } else { 350_000 }),
        ("big-conn", if q { 4_500 } else { 50_000 }),
        ("big-union", if q { 3_000 } else { 35_000 }),
        ("huge-chain", if q { 6 } else { 18 }),
    ];
    let mut gi = 0u64;
    for (family, count) in schedule {
        for i in 0..count {
            gi += 1;
            if !ctx.mine(gi) {
                continue;
            }
            if ctx.out_of_time() {
                return;
            }
            let mut rng = Rng::from_path(&[ctx.seed, 19, crate::cases::fam_hash(family), i]);
            if gi % 64 == 0 {
                ctx.case_begin(&json!({"family": family, "i": i}));
            }
            let mut case = if family == "huge-chain" {
                // chains (with side branches) of 70-150 thousand arguments: the grounded extension has
                // tens of thousands of members, reached only after as many propagation steps
                // boundary values: the grounded extension (every other argument of the chain) has a
                // size just above a power of two between 2^12 and 2^16
                let k = [13usize, 15, 16, 17, 14, 17][i as usize % 6];
                let len = (1usize << k) + 2 * rng.range(3, 40);
                let mut att: Vec<(usize, usize)> = (0..len - 1).map(|k| (k, k + 1)).collect();
                let mut n = len;
                for _ in 0..rng.range(0, 5) {
                    let k = rng.below(len);
                    att.push((k, n));
                    n += 1;
                }
                let g = Abs::new(n, att);
                let mut text = format!("p af {}\n", g.n);
                for (a, b) in g.att.iter() {
                    text.push_str(&format!("{} {}\n", a + 1, b + 1));
                }
                StaticCase { family: "huge-chain".to_string(), abs: g, pres: crate::present::Pres::Iccma { text } }
            } else if family == "rings" {
                // rings and paths of every length 2-9, with a tail or a chord
                let len = 2 + (i % 8) as usize;
                let mut g = if i % 3 == 0 { gen::chain(len) } else { gen::ring(len) };
                if rng.pct(50) {
                    let n = g.n;
                    let mut att = g.att.clone();
                    att.push((rng.below(n), n));
                    if rng.pct(50) {
                        att.push((n, rng.below(n)));
                    }
                    g = Abs::new(n + 1, att);
                }
                StaticCase { family: "rings".to_string(), abs: g.clone(), pres: crate::present::present(&g, "iccma", &mut rng) }
            } else {
                gen_case(family, i, ctx.seed, &lim)
            };
            // compact ids only (as produced by the readers)
            if family != "huge-chain" {
                let kind = *rng.pick(&["iccma", "iccma-dup", "apx", "nwl-u", "nwl-s"]);
                case.pres = crate::present::present(&case.abs, kind, &mut rng);
            }
            // ids stay compact when the *last declared* arguments are removed again: one case in eight is
            // the framework declared with 1-2 more arguments (and their attacks) that are then removed
            if family != "huge-chain" && case.abs.n >= 3 && case.abs.n <= 14 && rng.pct(12) {
                use crate::present::Op;
                let big = case.abs.clone();
                let k = rng.range(1, 2.min(big.n - 1));
                let n = big.n - k;
                let mut ops: Vec<Op<usize>> = (0..big.n).map(|i| Op::AddArg(i + 1)).collect();
                let mut atts = big.att_set();
                rng.shuffle(&mut atts);
                for (a, b) in atts.iter() {
                    ops.push(Op::AddAtt(a + 1, b + 1));
                }
                for j in 0..k {
                    ops.push(Op::DelArg(big.n - j));
                }
                let small: Vec<(usize, usize)> = big.att.iter().copied().filter(|(a, b)| *a < n && *b < n).collect();
                case.abs = Abs::new(n, small);
                case.pres = crate::present::Pres::OpsU { nwl: true, ops, labels: (1..=n).collect() };
                ctx.count("cases/last-declared-arguments-removed-again");
            }
            ctx.count(&format!("families/{}", family));
            crate::report::guarded(ctx, |ctx| {
                if case.pres.is_usize() {
                    if let Ok(b) = build_usize(&case.pres) {
                        c19_eval(ctx, &case, &b);
                    }
                } else if let Ok(b) = build_string(&case.pres) {
                    c19_eval(ctx, &case, &b);
                }
            });
        }
    }
}

pub fn replay_c19(ctx: &mut Ctx, case: &Value) -> Result<(), String> {
    let c = StaticCase::from_json(case).ok_or("bad case")?;
    if c.pres.is_usize() {
        c19_eval(ctx, &c, &build_usize(&c.pres)?);
    } else {
        c19_eval(ctx, &c, &build_string(&c.pres)?);
    }
    Ok(())
}

#[allow(dead_code)]
fn unused(_: Sem) {}
