//! Check C11: statuses are invariant under presentation, local to components, and mutually
//! consistent across semantics — on frameworks of 20-300 arguments (no ground truth needed).

use crate::cases::{gen_case, GenLimits, StaticCase};
use crate::gen;
use crate::monitor::{self, Backend};
use crate::oracle::Oracle;
use crate::present::{self, build_string, build_usize, Built, HLabel, Op, Pres};
use crate::props::static_eval::{exp_cost_built, sample_args, targets, Target, EXP_COST_LIMIT};
use crate::refsem::{Abs, Sem};
use crate::report::{Ctx, Tier};
use crate::rng::Rng;
use crate::solvers::{ask_fresh, Enc, QKind, QOut, Query, SolverType};
use serde_json::{json, Value};
use std::collections::BTreeMap;

const CALL_CAP: usize = 4000;

#[derive(Clone, Debug, PartialEq)]
enum Ans {
    Status(bool),
    Ext(Option<Vec<usize>>),
    /// cap exceeded / panic: the pair is skipped
    Skipped(String),
}

type Key = (String, Vec<usize>);

/// All answers of interest on one built framework. `map[i]` = abstract index (in the base graph)
/// of argument i of this variant, or None for arguments that do not belong to the base graph.
fn answers<T: HLabel>(
    ctx: &mut Ctx,
    built: &Built<T>,
    queried: &[usize],
    enc_choice: &BTreeMap<String, Enc>,
    with_se: bool,
) -> BTreeMap<Key, Ans> {
    let mut out = BTreeMap::new();
    for t in targets().iter() {
        if t.kind == QKind::SE && !with_se {
            continue;
        }
        // one entry per problem: the CLI dispatch (DC-PR via Complete, DS-CO via Grounded, ...)
        let enc = if t.ty == SolverType::Grounded { Enc::None } else { *enc_choice.get(&t.problem()).unwrap_or(&t.ty.encoders(t.kind)[0]) };
        let mut qs: Vec<Vec<usize>> = if t.kind == QKind::SE { vec![vec![]] } else { queried.iter().map(|a| vec![*a]).collect() };
        // on the base presentation also two lists (a pair and a triple of the queried arguments):
        // a list is answered as the disjunction of its members, under every semantics
        if with_se && t.kind != QKind::SE && queried.len() >= 5 && t.sem == t.ty.sem() {
            qs.push(vec![queried[0], queried[1]]);
            qs.push(vec![queried[2], queried[3], queried[4]]);
        }
        for args in qs {
            let q = Query { kind: t.kind, args: args.clone(), cert: false };
            let h = monitor::new_handle();
            {
                let mut s = h.borrow_mut();
                s.cap = Some(CALL_CAP);
                s.keep_clauses = false;
            }
            let r = ask_fresh(built, t.ty, enc, monitor::monitored_factory(Backend::Cadical, h.clone()), &q);
            ctx.eval();
            ctx.count_by("sat_calls", h.borrow().n_calls as u64);
            let a = match r {
                Ok(QOut::Status(b, _)) => Ans::Status(b),
                Ok(QOut::Ext(e)) => Ans::Ext(e.map(|s| s.set)),
                Err(p) => {
                    if h.borrow().cap_hit {
                        ctx.count(&format!("skipped/sat-call-cap/{}", t.problem()));
                        Ans::Skipped("sat-call-cap".to_string())
                    } else {
                        ctx.count(&format!("skipped/panic/{}", t.problem()));
                        eprintln!("panic in {} {:?}: {} at {}", t.problem(), args, p.msg, p.loc);
                        Ans::Skipped(format!("panic: {}", p.msg))
                    }
                }
            };
            out.insert((t.problem(), args), a);
        }
    }
    out
}

fn choose_encoders<T: HLabel>(built: &Built<T>, rng: &mut Rng) -> BTreeMap<String, Enc> {
    let cost = exp_cost_built(built);
    let mut m = BTreeMap::new();
    for t in targets().iter() {
        if t.ty == SolverType::Grounded {
            continue;
        }
        let encs: Vec<Enc> = t.ty.encoders(t.kind).iter().copied().filter(|e| !(*e == Enc::ExpCo && cost > EXP_COST_LIMIT)).collect();
        // default encoder half of the time, a random other one otherwise
        let e = if rng.pct(50) { encs[0] } else { encs[rng.below(encs.len())] };
        m.insert(t.problem(), e);
    }
    m
}

struct Variant {
    name: &'static str,
    pres: Pres,
    /// abstract (base) index -> index in the variant's label vector
    base_to_variant: Vec<usize>,
    /// what the extra component does to the stable semantics
    kills_stable: bool,
}

fn extra_component(rng: &mut Rng, with_stable: bool) -> Abs {
    if with_stable {
        match rng.below(4) {
            0 => gen::two_cycle(),
            1 => gen::chain(rng.range(1, 4)),
            2 => gen::ring(4),
            _ => Abs::new(3, vec![(0, 1), (1, 0), (0, 2), (1, 2)]),
        }
    } else {
        match rng.below(3) {
            0 => gen::ring(3),
            1 => gen::self_attacker(),
            _ => Abs::new(2, vec![(0, 0), (0, 1), (1, 0)].into_iter().filter(|x| *x != (1, 0)).collect()),
        }
    }
}

fn make_variants(base: &Abs, rng: &mut Rng) -> Vec<Variant> {
    let n = base.n;
    let id: Vec<usize> = (0..n).collect();
    let mut v = Vec::new();
    // (a) rename + permute declaration order, through the Aspartix reader or the API
    {
        let kind = *rng.pick(&["apx", "api-s", "nwl-u"]);
        v.push(Variant { name: "renamed-and-reordered", pres: present::present(base, kind, rng), base_to_variant: id.clone(), kills_stable: false });
    }
    // (b) attack lines permuted (present() shuffles them), (c) repeated
    v.push(Variant { name: "attack-lines-permuted", pres: present::present(base, "iccma", rng), base_to_variant: id.clone(), kills_stable: false });
    v.push(Variant { name: "attack-lines-repeated", pres: present::present(base, "iccma-dup", rng), base_to_variant: id.clone(), kills_stable: false });
    // (d) disjoint union with an unrelated component, indices of the base graph first
    for with_stable in [true, false] {
        let g = extra_component(rng, with_stable);
        let mut att = base.att.clone();
        for (a, b) in g.att.iter() {
            att.push((n + a, n + b));
        }
        let u = Abs::new(n + g.n, att);
        // interleave the labels so that component extraction must re-index
        let perm = rng.perm(u.n);
        let pu = gen::permuted(&u, &perm);
        let kind = *rng.pick(&["iccma", "apx"]);
        v.push(Variant {
            name: if with_stable { "union-with-component-having-a-stable-extension" } else { "union-with-component-without-stable-extension" },
            pres: present::present(&pu, kind, rng),
            base_to_variant: (0..n).map(|i| perm[i]).collect(),
            kills_stable: !with_stable,
        });
    }
    // (e) the extra component added and removed again through remove_argument (sparse ids)
    {
        let ws = rng.pct(50);
        let g = extra_component(rng, ws);
        let labels: Vec<usize> = (0..n + g.n).map(|i| 3 * i + 1).collect();
        let mut ops: Vec<Op<usize>> = Vec::new();
        for i in rng.perm(n + g.n) {
            ops.push(Op::AddArg(labels[i]));
        }
        let mut atts: Vec<(usize, usize)> = base.att_set();
        for (a, b) in g.att_set() {
            atts.push((n + a, n + b));
        }
        rng.shuffle(&mut atts);
        // some attacks of the base graph are only inserted after the extra component has been removed
        // again (removals followed by insertions: freed slots, stale per-argument lists)
        let mut late: Vec<(usize, usize)> = Vec::new();
        for (a, b) in atts {
            if a < n && b < n && rng.pct(25) {
                late.push((a, b));
            } else {
                ops.push(Op::AddAtt(labels[a], labels[b]));
            }
        }
        for j in rng.perm(g.n) {
            ops.push(Op::DelArg(labels[n + j]));
        }
        for (a, b) in late {
            ops.push(Op::AddAtt(labels[a], labels[b]));
        }
        v.push(Variant {
            name: "component-added-then-removed",
            pres: Pres::OpsU { nwl: false, ops, labels: labels[..n].to_vec() },
            base_to_variant: id,
            kills_stable: false,
        });
    }
    v
}

fn with_built<R>(pres: &Pres, f: &mut dyn FnMut(BuiltRef) -> R) -> Result<R, String> {
    if pres.is_usize() {
        let b = build_usize(pres)?;
        Ok(f(BuiltRef::U(&b)))
    } else {
        let b = build_string(pres)?;
        Ok(f(BuiltRef::S(&b)))
    }
}

enum BuiltRef<'a> {
    U(&'a Built<usize>),
    S(&'a Built<String>),
}

fn answers_of(ctx: &mut Ctx, pres: &Pres, queried: &[usize], rng: &mut Rng, with_se: bool, encs: Option<&BTreeMap<String, Enc>>) -> Result<(BTreeMap<Key, Ans>, BTreeMap<String, Enc>), String> {
    with_built(pres, &mut |b| match b {
        BuiltRef::U(b) => {
            let e = encs.cloned().unwrap_or_else(|| choose_encoders(b, rng));
            (answers(ctx, b, queried, &e, with_se), e)
        }
        BuiltRef::S(b) => {
            let e = encs.cloned().unwrap_or_else(|| choose_encoders(b, rng));
            (answers(ctx, b, queried, &e, with_se), e)
        }
    })
}

fn sem_of(problem: &str) -> &str {
    problem.split('-').nth(1).unwrap_or("")
}

fn eval_base(ctx: &mut Ctx, case: &StaticCase, rng: &mut Rng) {
    let base = &case.abs;
    let cj = case.to_json();
    let queried = sample_args(base, 8, rng);
    // reference answers on the base presentation (SE included for the cross-semantics relations)
    let (ref_ans, ref_encs) = match answers_of(ctx, &case.pres, &queried, rng, true, None) {
        Ok(x) => x,
        Err(e) => {
            ctx.harness_error(&e);
            return;
        }
    };
    ctx.count(&format!("bases/{}", case.family));
    ctx.maximum("largest_framework", base.n as u64);
    let skipped = ref_ans.values().filter(|a| matches!(a, Ans::Skipped(_))).count();
    if skipped > 0 {
        ctx.count_by("answers_skipped_cap_or_panic", skipped as u64);
    }
    let status = |m: &BTreeMap<Key, Ans>, p: &str, a: usize| -> Option<bool> {
        match m.get(&(p.to_string(), vec![a])) {
            Some(Ans::Status(b)) => Some(*b),
            _ => None,
        }
    };
    let ext = |m: &BTreeMap<Key, Ans>, p: &str| -> Option<Option<Vec<usize>>> {
        match m.get(&(p.to_string(), vec![])) {
            Some(Ans::Ext(e)) => Some(e.clone()),
            _ => None,
        }
    };
    // ---- relations on one framework ----
    let mut rel = |ctx: &mut Ctx, name: &str, ok: bool, detail: Value| {
        ctx.count(&format!("relations_checked/{}", name));
        if !ok {
            ctx.violation(&format!("C11/relation/{}", name), json!({"relation": name, "encoders": ref_encs.iter().map(|(k, v)| (k.clone(), v.name())).collect::<BTreeMap<_, _>>(), "observed": detail}), &cj);
        }
    };
    let gr = ext(&ref_ans, "SE-GR").flatten();
    let idl = ext(&ref_ans, "SE-ID").flatten();
    let prx = ext(&ref_ans, "SE-PR").flatten();
    if let (Some(g), Some(i)) = (&gr, &idl) {
        rel(ctx, "SE-GR-within-SE-ID", g.iter().all(|a| i.contains(a)), json!({"SE-GR": g, "SE-ID": i}));
    }
    if let (Some(i), Some(p)) = (&idl, &prx) {
        rel(ctx, "SE-ID-within-returned-PR-extension", i.iter().all(|a| p.contains(a)), json!({"SE-ID": i, "SE-PR": p}));
    }
    let st_ext = ext(&ref_ans, "SE-ST");
    let stable_exists = st_ext.as_ref().map(|e| e.is_some());
    for a in queried.iter() {
        if let (Some(x), Some(y)) = (status(&ref_ans, "DC-CO", *a), status(&ref_ans, "DC-PR", *a)) {
            rel(ctx, "DC-CO-equals-DC-PR", x == y, json!({"argument": a, "DC-CO": x, "DC-PR": y}));
        }
        if let (Some(x), Some(g)) = (status(&ref_ans, "DS-CO", *a), &gr) {
            rel(ctx, "DS-CO-equals-membership-in-SE-GR", x == g.contains(a), json!({"argument": a, "DS-CO": x, "SE-GR": g}));
        }
        if let (Some(x), Some(g)) = (status(&ref_ans, "DC-GR", *a), &gr) {
            rel(ctx, "DC-GR-equals-membership-in-SE-GR", x == g.contains(a), json!({"argument": a, "DC-GR": x}));
        }
        if let (Some(x), Some(i)) = (status(&ref_ans, "DC-ID", *a), &idl) {
            rel(ctx, "DC-ID-equals-membership-in-SE-ID", x == i.contains(a), json!({"argument": a, "DC-ID": x, "SE-ID": i}));
        }
        for sem in ["GR", "CO", "PR", "SST", "STG", "ID"] {
            if let (Some(ds), Some(dc)) = (status(&ref_ans, &format!("DS-{}", sem), *a), status(&ref_ans, &format!("DC-{}", sem), *a)) {
                rel(ctx, "skeptical-implies-credulous", !ds || dc, json!({"argument": a, "semantics": sem, "DS": ds, "DC": dc}));
            }
        }
        if stable_exists == Some(true) {
            if let (Some(ds), Some(dc)) = (status(&ref_ans, "DS-ST", *a), status(&ref_ans, "DC-ST", *a)) {
                rel(ctx, "skeptical-implies-credulous", !ds || dc, json!({"argument": a, "semantics": "ST", "DS": ds, "DC": dc}));
            }
            for q in ["DC", "DS"] {
                let s = status(&ref_ans, &format!("{}-ST", q), *a);
                for other in ["SST", "STG"] {
                    if let (Some(x), Some(y)) = (s, status(&ref_ans, &format!("{}-{}", q, other), *a)) {
                        rel(ctx, "ST-SST-STG-coincide-when-a-stable-extension-exists", x == y, json!({"argument": a, "query": q, "ST": x, other: y}));
                    }
                }
            }
        }
        if stable_exists == Some(false) {
            if let (Some(ds), Some(dc)) = (status(&ref_ans, "DS-ST", *a), status(&ref_ans, "DC-ST", *a)) {
                rel(ctx, "no-stable-extension-convention", ds && !dc, json!({"argument": a, "DS-ST": ds, "DC-ST": dc}));
            }
        }
        // PR-skeptical arguments belong to the returned preferred extension, ideal arguments are PR-skeptical
        if let (Some(ds), Some(p)) = (status(&ref_ans, "DS-PR", *a), &prx) {
            rel(ctx, "DS-PR-within-returned-PR-extension", !ds || p.contains(a), json!({"argument": a, "DS-PR": ds, "SE-PR": p}));
        }
        if let (Some(i), Some(ds)) = (status(&ref_ans, "DC-ID", *a), status(&ref_ans, "DS-PR", *a)) {
            rel(ctx, "ideal-implies-skeptically-preferred", !i || ds, json!({"argument": a, "DC-ID": i, "DS-PR": ds}));
        }
    }
    // ---- lists: credulous = OR of the members' statuses, skeptical >= OR of the members' statuses ----
    for ((p, args), a) in ref_ans.iter() {
        if args.len() < 2 {
            continue;
        }
        if let Ans::Status(b) = a {
            let members: Vec<Option<bool>> = args.iter().map(|x| status(&ref_ans, p, *x)).collect();
            if members.iter().all(|m| m.is_some()) {
                let any = members.iter().any(|m| *m == Some(true));
                let ok = if p.starts_with("DC") { *b == any } else { *b || !any };
                rel(ctx, "list-answered-as-disjunction-of-its-members", ok, json!({"problem": p, "list": args, "status_of_list": b, "statuses_of_members": members}));
            }
        }
    }
    // ---- exact oracle where one exists at this size ----
    if let Ok(mut o) = Oracle::for_graph(base) {
        if !matches!(o, Oracle::Sat(_)) || base.n <= 60 {
            for ((p, args), a) in ref_ans.iter() {
                if let (Ans::Status(b), Some(sem)) = (a, Sem::from_name(sem_of(p))) {
                    let e = if p.starts_with("DC") { o.cred(sem, args) } else { o.skep(sem, args) };
                    ctx.count("oracle_comparisons");
                    if let Some(e) = e {
                        if e != *b {
                            ctx.violation(
                                &format!("C11/status-differs-from-oracle/{}", p),
                                json!({"problem": p, "arguments": args, "expected": e, "observed": b, "oracle": o.kind()}),
                                &cj,
                            );
                        }
                    }
                }
            }
        }
    }
    // ---- transformations ----
    for var in make_variants(base, rng) {
        let vq: Vec<usize> = queried.iter().map(|a| var.base_to_variant[*a]).collect();
        let (vans, _) = match answers_of(ctx, &var.pres, &vq, rng, false, Some(&ref_encs)) {
            Ok(x) => x,
            Err(e) => {
                ctx.harness_error(&format!("variant {}: {}", var.name, e));
                continue;
            }
        };
        ctx.count(&format!("transformations/{}", var.name));
        let mut compared = 0u64;
        for (qi, a) in queried.iter().enumerate() {
            for t in targets().iter().filter(|t| t.kind != QKind::SE) {
                let p = t.problem();
                let r = status(&ref_ans, &p, *a);
                let v = status(&vans, &p, vq[qi]);
                let (r, v) = match (r, v) {
                    (Some(r), Some(v)) => (r, v),
                    _ => {
                        ctx.inconclusive("pair-skipped-cap-or-panic");
                        continue;
                    }
                };
                compared += 1;
                let expected = if var.kills_stable && t.sem == Sem::ST {
                    // every argument becomes skeptically and none credulously accepted
                    t.kind == QKind::DS
                } else {
                    r
                };
                if v != expected {
                    ctx.violation(
                        &format!("C11/status-changed-by/{}/{}", var.name, p),
                        json!({"transformation": var.name, "problem": p, "argument": a, "argument_in_variant": vq[qi], "status_on_base": r,
                               "expected_on_variant": expected, "status_on_variant": v,
                               "encoder": ref_encs.get(&p).map(|e| e.name()), "variant_presentation": var.pres.to_json()}),
                        &cj,
                    );
                }
            }
        }
        ctx.count_by("status_pairs_compared", compared);
        if compared > 0 {
            ctx.nontrivial(gen::case_hash(base, &[var.name, case.pres.kind()]));
        }
    }
    ctx.sample(&format!("base/{}", case.family), || {
        json!({"case": case.short(), "queried_arguments": queried, "preferred_extension_size": prx.as_ref().map(|p| p.len()),
               "stable_extension_exists": stable_exists, "encoders": ref_encs.iter().map(|(k, v)| (k.clone(), v.name())).collect::<BTreeMap<_, _>>()})
    });
}

/// A subset through the binaries: the same file with permuted / repeated lines gives the same stdout.
fn eval_cli(ctx: &mut Ctx, case: &StaticCase, rng: &mut Rng) {
    let base = &case.abs;
    if base.n == 0 {
        return;
    }
    let dir = ctx.out_dir.join(format!("c11-cli-{}", ctx.shard));
    let _ = std::fs::create_dir_all(&dir);
    let bin = ctx.repo_bin_dir.join("crustabri");
    let t1 = match present::present(base, "iccma", rng) {
        Pres::Iccma { text } => text,
        _ => return,
    };
    let t2 = match present::present(base, "iccma-dup", rng) {
        Pres::Iccma { text } => text,
        _ => return,
    };
    let f1 = dir.join("a.af");
    let f2 = dir.join("b.af");
    if std::fs::write(&f1, &t1).is_err() || std::fs::write(&f2, &t2).is_err() {
        ctx.harness_error("cannot write files");
        return;
    }
    let problems = ["DC-CO", "DC-PR", "DS-PR", "DC-ST", "DS-ST", "DC-SST", "DS-SST", "DC-STG", "DS-STG", "DC-ID", "DS-ID", "DS-CO", "DC-GR", "DS-GR"];
    for _ in 0..6 {
        let p = *rng.pick(&problems);
        let a = 1 + rng.below(base.n);
        let run = |f: &std::path::Path| -> Option<(bool, String)> {
            let o = std::process::Command::new(&bin)
                .env("RUST_BACKTRACE", "0")
                .args(["solve", "-f", f.to_str().unwrap(), "-p", p, "-a", &a.to_string(), "--logging-level", "off"])
                .output()
                .ok()?;
            Some((o.status.success(), String::from_utf8_lossy(&o.stdout).to_string()))
        };
        let (r1, r2) = match (run(&f1), run(&f2)) {
            (Some(a), Some(b)) => (a, b),
            _ => {
                ctx.harness_error("cannot run crustabri");
                return;
            }
        };
        ctx.eval();
        ctx.count("cli_pairs_compared");
        if r1 != r2 {
            ctx.violation(
                &format!("C11/cli-output-changed-by/attack-lines-permuted-and-repeated/{}", p),
                json!({"problem": p, "argument": a, "first": {"ok": r1.0, "stdout": r1.1}, "second": {"ok": r2.0, "stdout": r2.1}, "second_file": t2}),
                &case.to_json(),
            );
        }
        // DC-CO = DC-PR at the command line
        if p == "DC-CO" {
            let o = std::process::Command::new(&bin)
                .env("RUST_BACKTRACE", "0")
                .args(["solve", "-f", f1.to_str().unwrap(), "-p", "DC-PR", "-a", &a.to_string(), "--logging-level", "off"])
                .output();
            if let Ok(o) = o {
                let s = String::from_utf8_lossy(&o.stdout).to_string();
                ctx.count("relations_checked/cli-DC-CO-equals-DC-PR");
                if s != r1.1 {
                    ctx.violation("C11/relation/cli-DC-CO-equals-DC-PR", json!({"argument": a, "DC-CO": r1.1, "DC-PR": s}), &case.to_json());
                }
            }
        }
    }
}

pub fn run(ctx: &mut Ctx) {
    let q = ctx.tier == Tier::Quick;
    let lim = GenLimits { er_max: 9, big_min: 20, big_max: ctx.tier.pick(140, 300) };
    let schedule: Vec<(&str, u64)> = vec![
        ("big-conn", if q { 450 } else { 4_000 }),
        ("big-two", if q { 120 } else { 1_500 }),
        ("big-union", if q { 330 } else { 3_000 }),
        ("closed-form", if q { 120 } else { 1_000 }),
        ("er", if q { 360 } else { 3_000 }),
        ("lattice", if q { 180 } else { 1_500 }),
    ];
    let mut gi = 0u64;
    for (family, count) in schedule {
        for i in 0..count {
            gi += 1;
            if !ctx.mine(gi) {
                continue;
            }
            if ctx.out_of_time() {
                return;
            }
            let mut rng = Rng::from_path(&[ctx.seed, 11, crate::cases::fam_hash(family), i]);
            let mut case = gen_case(family, i, ctx.seed, &lim);
            // the base presentation is the plain ICCMA text of the graph
            case.pres = present::present(&case.abs, "iccma", &mut rng);
            ctx.case_begin(&json!({"family": family, "i": i, "n": case.abs.n}));
            let t0 = std::time::Instant::now();
            crate::report::guarded(ctx, |ctx| eval_base(ctx, &case, &mut rng));
            if rng.pct(10) {
                crate::report::guarded(ctx, |ctx| eval_cli(ctx, &case, &mut rng));
            }
            ctx.maximum("slowest_base_ms", t0.elapsed().as_millis() as u64);
        }
    }
}

pub fn replay(ctx: &mut Ctx, case: &Value) -> Result<(), String> {
    let c = StaticCase::from_json(case).ok_or("bad case")?;
    // several random draws of encoders / transformations
    for k in 0..6 {
        let mut rng = Rng::new(1100 + k);
        eval_base(ctx, &c, &mut rng);
        eval_cli(ctx, &c, &mut rng);
    }
    Ok(())
}

#[allow(dead_code)]
fn unused(_: &Target) {}
