//! Check C10: the CNF produced by each encoder characterises exactly the intended family of sets.

use crate::cases::{gen_case, GenLimits, StaticCase};
use crate::dpll::dpll;
use crate::gen;
use crate::present::{build_string, build_usize, check_presents, Built, HLabel, Pres};
use crate::refsem::{Abs, RefSem};
use crate::report::{catch, Ctx, Tier};
use crate::rng::Rng;
use crate::solvers::Enc;
use crustabri::sat::{Assignment, Literal, SatSolver, SolvingListener, SolvingResult};
use serde_json::{json, Value};

/// A `SatSolver` that only records what an encoder does to it.
#[derive(Default)]
pub struct RecSolver {
    pub clauses: Vec<Vec<isize>>,
    pub max_var: usize,
    pub reserved: usize,
}

impl SatSolver for RecSolver {
    fn add_clause(&mut self, cl: Vec<Literal>) {
        let c: Vec<isize> = cl.iter().map(|l| isize::from(*l)).collect();
        for l in c.iter() {
            self.max_var = self.max_var.max(l.unsigned_abs());
        }
        self.clauses.push(c);
    }
    fn solve(&mut self) -> SolvingResult {
        panic!("harness: RecSolver cannot solve")
    }
    fn solve_under_assumptions(&mut self, _assumptions: &[Literal]) -> SolvingResult {
        panic!("harness: RecSolver cannot solve")
    }
    fn n_vars(&self) -> usize {
        self.max_var.max(self.reserved)
    }
    fn add_listener(&mut self, _listener: Box<dyn SolvingListener>) {}
    fn reserve(&mut self, new_max_id: usize) {
        self.reserved = self.reserved.max(new_max_id);
    }
}

/// An `Assignment` object with the given values (obtained from a clause-free CaDiCaL instance on
/// which the values are assumed, since crustabri gives no public constructor).
pub fn make_assignment(values: &[bool]) -> Option<Assignment> {
    use crustabri::sat::CadicalSolver;
    let mut c = CadicalSolver::default();
    c.reserve(values.len());
    let lits: Vec<Literal> = values
        .iter()
        .enumerate()
        .map(|(i, b)| {
            let v = (i + 1) as isize;
            Literal::from(if *b { v } else { -v })
        })
        .collect();
    match c.solve_under_assumptions(&lits) {
        SolvingResult::Satisfiable(a) => Some(a),
        _ => None,
    }
}

#[derive(Clone, Copy, PartialEq, Eq, Debug)]
enum Family {
    Cf,
    Adm,
    Co,
    St,
}

fn family_of(e: Enc) -> Family {
    match e {
        Enc::AuxCf | Enc::ExpCf | Enc::HelperCf => Family::Cf,
        Enc::AuxAdm => Family::Adm,
        Enc::AuxCo | Enc::ExpCo | Enc::Hybrid | Enc::HelperCo => Family::Co,
        Enc::Stable => Family::St,
        Enc::None | Enc::Default | Enc::New => unreachable!(),
    }
}

fn in_family(rs: &RefSem, f: Family, s: u32) -> bool {
    match f {
        Family::Cf => rs.is_cf(s),
        Family::Adm => rs.is_adm(s),
        Family::Co => rs.is_co(s),
        Family::St => rs.is_st(s),
    }
}

pub const ENCODERS: [Enc; 9] = [
    Enc::HelperCo,
    Enc::HelperCf,
    Enc::AuxCf,
    Enc::AuxAdm,
    Enc::AuxCo,
    Enc::ExpCf,
    Enc::ExpCo,
    Enc::Hybrid,
    Enc::Stable,
];

fn judge_encoder<T: HLabel>(
    ctx: &mut Ctx,
    case: &StaticCase,
    built: &Built<T>,
    rs: &RefSem,
    enc: Enc,
    with_range: bool,
    warm: bool,
) -> Option<(String, Value)> {
    let n = case.abs.n;
    let name = format!("{}{}{}", enc.name(), if with_range { "+range" } else { "" }, if warm { "+reused-encoder" } else { "" });
    let encoder = enc.make::<T>();
    if warm {
        // the same encoder object has encoded another framework before (as the solvers do: one
        // encoder per solver object, one encoding per component and per query)
        let labels: Vec<T> = (0..13).map(T::nth).collect();
        let mut waf = crustabri::aa::AAFramework::new_with_argument_set(crustabri::aa::ArgumentSet::new_with_labels(&labels));
        // two targets above the hybrid threshold, self-attacks, a 2-cycle
        for (a, b) in [(1, 0), (2, 0), (3, 0), (4, 0), (5, 0), (6, 1), (7, 1), (6, 2), (7, 2), (8, 3), (9, 3), (8, 4), (9, 4), (10, 5), (11, 5), (12, 12), (12, 6), (6, 7), (7, 6), (0, 11), (1, 11), (2, 11), (3, 11), (4, 11)] {
            let _ = waf.new_attack(&labels[a], &labels[b]);
        }
        let mut throwaway = RecSolver::default();
        let _ = catch(|| {
            if with_range {
                encoder.encode_constraints_and_range(&waf, &mut throwaway)
            } else {
                encoder.encode_constraints(&waf, &mut throwaway)
            }
        });
        ctx.count("cnfs_from_reused_encoder_objects");
    }
    let mut rec = RecSolver::default();
    let r = catch(|| {
        if with_range {
            encoder.encode_constraints_and_range(&built.af, &mut rec)
        } else {
            encoder.encode_constraints(&built.af, &mut rec)
        }
    });
    if let Err(p) = r {
        return Some((format!("C10/panic/encode/{}/{}", name, p.site()), p.to_json()));
    }
    let n_vars = rec.n_vars();
    ctx.count("cnfs_validated");
    ctx.count(&format!("cnfs/{}", name));
    ctx.maximum("max_cnf_vars", n_vars as u64);
    ctx.maximum("max_cnf_clauses", rec.clauses.len() as u64);
    // literal map
    let mut lits: Vec<isize> = Vec::with_capacity(n);
    for i in 0..n {
        let arg = built.af.argument_set().get_argument(&built.labels[i]).unwrap();
        let l = match catch(|| isize::from(encoder.arg_to_lit(arg))) {
            Ok(l) => l,
            Err(p) => return Some((format!("C10/panic/arg_to_lit/{}/{}", name, p.site()), p.to_json())),
        };
        lits.push(l);
    }
    let first_range = if with_range {
        match catch(|| encoder.first_range_var(n)) {
            Ok(v) => Some(v),
            Err(p) => return Some((format!("C10/panic/first_range_var/{}/{}", name, p.site()), p.to_json())),
        }
    } else {
        None
    };
    for (i, l) in lits.iter().enumerate() {
        if *l <= 0 {
            return Some((format!("C10/arg_to_lit-not-positive/{}", name), json!({"argument": i, "literal": l})));
        }
        if n_vars > 0 && (*l as usize) > n_vars && !(rec.clauses.is_empty()) {
            return Some((format!("C10/arg_to_lit-beyond-n_vars/{}", name), json!({"argument": i, "literal": l, "n_vars": n_vars})));
        }
        if lits[..i].contains(l) {
            return Some((format!("C10/arg_to_lit-not-injective/{}", name), json!({"argument": i, "literal": l, "all": lits})));
        }
        if let Some(fr) = first_range {
            let v = *l as usize;
            if v >= fr && v < fr + n {
                return Some((format!("C10/arg-literal-inside-range-block/{}", name), json!({"argument": i, "literal": l, "first_range_var": fr})));
            }
        }
    }
    // range variable of argument i (ids are compact: id = declaration rank)
    let rvar = |i: usize| -> Option<isize> {
        let id = built.af.argument_set().get_argument(&built.labels[i]).unwrap().id();
        first_range.map(|fr| (fr + id) as isize)
    };
    let eff_vars = {
        let mut m = n_vars;
        for l in lits.iter() {
            m = m.max(*l as usize);
        }
        if let Some(fr) = first_range {
            m = m.max(fr + n.max(1) - 1);
        }
        m
    };
    if enc == Enc::Hybrid {
        match hybrid_sides(built) {
            (true, true) => ctx.count("hybrid/arguments-on-both-sides-of-threshold"),
            (true, false) => ctx.count("hybrid/only-above-threshold"),
            (false, true) => ctx.count("hybrid/only-below-threshold"),
            _ => {}
        }
    }
    let fam = family_of(enc);
    let mut members = 0u32;
    let subsets: u64 = 1u64 << n;
    for s in 0..subsets as u32 {
        ctx.eval();
        let mut ass: Vec<isize> = Vec::with_capacity(n);
        for (i, l) in lits.iter().enumerate() {
            ass.push(if s & (1 << i) != 0 { *l } else { -*l });
        }
        let sat = dpll(eff_vars, &rec.clauses, &ass).is_some();
        let want = in_family(rs, fam, s);
        if want {
            members += 1;
        }
        if sat != want {
            return Some((
                format!("C10/model-set-differs/{}/{}", name, if sat { "extra-model" } else { "missing-model" }),
                json!({"set": crate::refsem::set_of(s), "cnf_satisfiable_with_exactly_this_set": sat, "set_in_intended_family": want,
                       "family": format!("{:?}", fam), "n_vars": n_vars, "n_clauses": rec.clauses.len()}),
            ));
        }
        if with_range && want {
            let range = rs.range(s);
            // (a) a model whose range variables equal the range
            let mut a2 = ass.clone();
            for i in 0..n {
                let rv = rvar(i).unwrap();
                a2.push(if range & (1 << i) != 0 { rv } else { -rv });
            }
            if dpll(eff_vars, &rec.clauses, &a2).is_none() {
                return Some((
                    format!("C10/range/no-model-with-range-variables-equal-to-range/{}", name),
                    json!({"set": crate::refsem::set_of(s), "range": crate::refsem::set_of(range)}),
                ));
            }
            // (b) no model with a range variable true outside the range
            for i in 0..n {
                if range & (1 << i) == 0 {
                    let mut a3 = ass.clone();
                    a3.push(rvar(i).unwrap());
                    if dpll(eff_vars, &rec.clauses, &a3).is_some() {
                        return Some((
                            format!("C10/range/range-variable-true-outside-range/{}", name),
                            json!({"set": crate::refsem::set_of(s), "range": crate::refsem::set_of(range), "argument": i}),
                        ));
                    }
                }
            }
        }
    }
    // assignment_to_extension on "true exactly on arg_to_lit(S)" for a few S and on all-true
    let len = eff_vars.max(1);
    let mut probes: Vec<u32> = vec![0, (subsets - 1) as u32];
    if subsets > 2 {
        probes.push(((subsets - 1) as u32) & 0x5555_5555);
        probes.push(1);
    }
    for s in probes {
        let mut vals = vec![false; len];
        for (i, l) in lits.iter().enumerate() {
            if s & (1 << i) != 0 && (*l as usize) <= len {
                vals[*l as usize - 1] = true;
            }
        }
        if let Some(a) = make_assignment(&vals) {
            match catch(|| crate::solvers::map_set(built, &encoder.assignment_to_extension(&a, &built.af))) {
                Err(p) => return Some((format!("C10/panic/assignment_to_extension/{}/{}", name, p.site()), p.to_json())),
                Ok(so) => {
                    if so.set != crate::refsem::set_of(s) || !so.member_errors.is_empty() {
                        return Some((
                            format!("C10/assignment_to_extension-wrong/{}", name),
                            json!({"assignment_true_exactly_on": crate::refsem::set_of(s), "decoded": so.set, "member_errors": so.member_errors}),
                        ));
                    }
                }
            }
        }
    }
    // all variables true: auxiliary / range variables must not be decoded as arguments
    if let Some(a) = make_assignment(&vec![true; len]) {
        match catch(|| crate::solvers::map_set(built, &encoder.assignment_to_extension(&a, &built.af))) {
            Err(p) => return Some((format!("C10/panic/assignment_to_extension/{}/{}", name, p.site()), p.to_json())),
            Ok(so) => {
                let all: Vec<usize> = (0..n).collect();
                if so.set != all || !so.member_errors.is_empty() {
                    return Some((
                        format!("C10/assignment_to_extension-decodes-auxiliary-variables/{}", name),
                        json!({"decoded": so.set, "member_errors": so.member_errors, "n": n}),
                    ));
                }
            }
        }
    }
    // non-trivial: the family differs from 2^A and from {empty set}
    if members as u64 != subsets && !(members == 1 && in_family(rs, fam, 0)) {
        ctx.nontrivial(gen::case_hash(&case.abs, &[case.pres.kind(), &name]));
    }
    ctx.sample(&format!("cnf/{}", name), || {
        json!({"case": case.short(), "encoder": name, "n_vars": n_vars, "n_clauses": rec.clauses.len(), "sets_in_family": members,
               "first_clauses": rec.clauses.iter().take(6).collect::<Vec<_>>()})
    });
    None
}

/// For the hybrid encoder: is some argument's defender-set product at or above the switching
/// threshold (32) and some other argument's below it?  Computed on the framework as built
/// (attack multiset), for arguments that have attackers all of which are attacked.
fn hybrid_sides<T: HLabel>(built: &Built<T>) -> (bool, bool) {
    let mut above = false;
    let mut below = false;
    for a in built.af.argument_set().iter() {
        let mut prod: u64 = 1;
        let mut n_att = 0;
        let mut empty = false;
        for att in built.af.iter_attacks_to(a) {
            n_att += 1;
            let d = built.af.iter_attacks_to(att.attacker()).count() as u64;
            if d == 0 {
                empty = true;
            }
            prod = prod.saturating_mul(d.max(1));
        }
        if n_att == 0 || empty {
            continue;
        }
        if prod >= 32 {
            above = true;
        } else {
            below = true;
        }
    }
    (above, below)
}

fn eval_case(ctx: &mut Ctx, case: &StaticCase, only: Option<(Enc, bool)>) {
    let rs = match RefSem::new(&case.abs) {
        Ok(r) => r,
        Err(e) => {
            ctx.harness_error(&e.0);
            return;
        }
    };
    fn go<T: HLabel>(ctx: &mut Ctx, case: &StaticCase, built: &Built<T>, rs: &RefSem, only: Option<(Enc, bool)>) {
        if check_presents(built, &case.abs).is_err() {
            ctx.inconclusive("presentation-mismatch");
            return;
        }
        let cost = crate::props::static_eval::exp_cost_built(built);
        for enc in ENCODERS {
            for with_range in [false, true] {
                if let Some((e, r)) = only {
                    if e != enc || r != with_range {
                        continue;
                    }
                }
                if with_range && enc == Enc::Stable {
                    continue; // not implemented by design (the stable encoder has no range variant)
                }
                if enc == Enc::ExpCo && cost > 4000 {
                    ctx.count("skipped/exp-encoder-clause-explosion");
                    continue;
                }
                for warm in [false, true] {
                    if let Some((sig, detail)) = judge_encoder(ctx, case, built, rs, enc, with_range, warm) {
                        let mut d = detail;
                        if let Value::Object(m) = &mut d {
                            m.insert("encoder".to_string(), json!(enc.name()));
                            m.insert("with_range".to_string(), json!(with_range));
                            m.insert("encoder_object_reused".to_string(), json!(warm));
                        }
                        ctx.violation(&sig, d, &case.to_json());
                        break;
                    }
                }
            }
        }
    }
    ctx.count(&format!("cases/{}", case.family));
    if case.pres.is_usize() {
        match build_usize(&case.pres) {
            Ok(b) => go(ctx, case, &b, &rs, only),
            Err(e) => ctx.harness_error(&e),
        }
    } else {
        match build_string(&case.pres) {
            Ok(b) => go(ctx, case, &b, &rs, only),
            Err(e) => ctx.harness_error(&e),
        }
    }
}


// ---------------------------------------------------------------------------------------------
// CNFs of frameworks beyond exhaustive subset enumeration (65-140 arguments)
// ---------------------------------------------------------------------------------------------

/// Validates the CNF an encoder emits for a framework that is too big for subset enumeration.
///
/// * **No model outside the family — exact, by one SAT call per CNF**: the CNF is conjoined (in an
///   independent CaDiCaL instance) with a definition, over fresh variables, of "the set on the
///   argument variables violates the family's definition somewhere" (a conflict; a member with an
///   attacker that the set does not attack; a non-member all of whose attackers are attacked; with
///   range variables: a range variable true for an argument outside the range).  SAT = a model that
///   is not in the family; the set read off the model is re-checked by the polynomial definition
///   check before it is reported.
/// * **No member without a model — sampled**: members produced independently of the encoder
///   (grounded extension, greedy conflict-free sets pruned to admissible ones and closed to complete
///   ones, sets found by the reference labelling encoding under random constraints) must each be
///   extendable to a model, with range variables equal to the member's range.
fn judge_encoder_big<T: HLabel>(
    ctx: &mut Ctx,
    case: &StaticCase,
    built: &Built<T>,
    enc: Enc,
    with_range: bool,
    rng: &mut Rng,
) -> Option<(String, Value)> {
    use crate::refsat::{Base, RefSat};
    let n = case.abs.n;
    let name = format!("{}{}+big", enc.name(), if with_range { "+range" } else { "" });
    let encoder = enc.make::<T>();
    let mut rec = RecSolver::default();
    let r = catch(|| {
        if with_range {
            encoder.encode_constraints_and_range(&built.af, &mut rec)
        } else {
            encoder.encode_constraints(&built.af, &mut rec)
        }
    });
    if let Err(p) = r {
        return Some((format!("C10/panic/encode/{}/{}", name, p.site()), p.to_json()));
    }
    ctx.count("cnfs_validated");
    ctx.count("big_cnfs_validated");
    ctx.count(&format!("cnfs/{}", name));
    ctx.maximum("max_cnf_vars", rec.n_vars() as u64);
    ctx.maximum("max_cnf_clauses", rec.clauses.len() as u64);
    ctx.maximum("max_arguments_of_a_validated_cnf", n as u64);
    let mut lits: Vec<i32> = Vec::with_capacity(n);
    for i in 0..n {
        let arg = built.af.argument_set().get_argument(&built.labels[i]).unwrap();
        match catch(|| isize::from(encoder.arg_to_lit(arg))) {
            Ok(l) if l > 0 => lits.push(l as i32),
            Ok(l) => return Some((format!("C10/arg_to_lit-not-positive/{}", name), json!({"argument": i, "literal": l}))),
            Err(p) => return Some((format!("C10/panic/arg_to_lit/{}/{}", name, p.site()), p.to_json())),
        }
    }
    {
        let mut seen = std::collections::BTreeSet::new();
        for (i, l) in lits.iter().enumerate() {
            if !seen.insert(*l) {
                return Some((format!("C10/arg_to_lit-not-injective/{}", name), json!({"argument": i, "literal": l})));
            }
        }
    }
    let first_range = if with_range {
        match catch(|| encoder.first_range_var(n)) {
            Ok(v) => Some(v),
            Err(p) => return Some((format!("C10/panic/first_range_var/{}/{}", name, p.site()), p.to_json())),
        }
    } else {
        None
    };
    let rvar = |i: usize| -> i32 {
        let id = built.af.argument_set().get_argument(&built.labels[i]).unwrap().id();
        (first_range.unwrap() + id) as i32
    };
    if let Some(fr) = first_range {
        for (i, l) in lits.iter().enumerate() {
            let v = *l as usize;
            if v >= fr && v < fr + n {
                return Some((format!("C10/arg-literal-inside-range-block/{}", name), json!({"argument": i, "literal": l, "first_range_var": fr})));
            }
        }
    }
    // attackers by abstract index (set semantics: repeated attack lines do not matter)
    let mut attackers: Vec<std::collections::BTreeSet<usize>> = vec![Default::default(); n];
    for (a, b) in case.abs.att.iter() {
        attackers[*b].insert(*a);
    }
    let mut targets: Vec<Vec<usize>> = vec![Vec::new(); n];
    for (a, b) in case.abs.att.iter() {
        targets[*a].push(*b);
    }
    let fam = family_of(enc);
    let rsat = RefSat::new(&case.abs);
    let is_member = |set: &[usize]| -> bool {
        match fam {
            Family::Cf => rsat.is_cf(set),
            Family::Adm => rsat.is_adm(set),
            Family::Co => rsat.is_co(set),
            Family::St => rsat.is_st(set),
        }
    };
    let mut top = rec.n_vars() as i32;
    for l in lits.iter() {
        top = top.max(*l);
    }
    if let Some(fr) = first_range {
        top = top.max((fr + n) as i32);
    }
    let base_solver = || -> cadical::Solver {
        let mut s: cadical::Solver = cadical::Solver::new();
        for c in rec.clauses.iter() {
            s.add_clause(c.iter().map(|l| *l as i32));
        }
        s
    };
    // ---- (1) no model outside the family: exact ----
    {
        let mut s = base_solver();
        let mut next = top + 1;
        let mut fresh = || {
            let v = next;
            next += 1;
            v
        };
        // d[b] <-> some attacker of b is in the set
        let d: Vec<i32> = (0..n).map(|_| fresh()).collect();
        for b in 0..n {
            let mut c: Vec<i32> = vec![-d[b]];
            for a in attackers[b].iter() {
                c.push(lits[*a]);
                s.add_clause([d[b], -lits[*a]]);
            }
            s.add_clause(c);
        }
        let mut violations: Vec<i32> = Vec::new();
        // conflict: both ends of an attack in the set
        for (a, b) in case.abs.att.iter() {
            let v = fresh();
            s.add_clause([-v, lits[*a]]);
            s.add_clause([-v, lits[*b]]);
            violations.push(v);
        }
        if matches!(fam, Family::Adm | Family::Co) {
            // a member with an attacker that the set does not attack
            for a in 0..n {
                for b in attackers[a].iter() {
                    let v = fresh();
                    s.add_clause([-v, lits[a]]);
                    s.add_clause([-v, -d[*b]]);
                    violations.push(v);
                }
            }
        }
        if fam == Family::Co {
            // a non-member all of whose attackers are attacked by the set
            for a in 0..n {
                let v = fresh();
                s.add_clause([-v, -lits[a]]);
                for b in attackers[a].iter() {
                    s.add_clause([-v, d[*b]]);
                }
                violations.push(v);
            }
        }
        if fam == Family::St {
            // an argument neither in the set nor attacked by it
            for a in 0..n {
                let v = fresh();
                s.add_clause([-v, -lits[a]]);
                s.add_clause([-v, -d[a]]);
                violations.push(v);
            }
        }
        let mut range_violation_from = violations.len();
        if with_range {
            range_violation_from = violations.len();
            // a range variable true for an argument outside the range of the set
            for a in 0..n {
                let v = fresh();
                s.add_clause([-v, rvar(a)]);
                s.add_clause([-v, -lits[a]]);
                s.add_clause([-v, -d[a]]);
                violations.push(v);
            }
        }
        // "some violation holds": a balanced tree of binary ORs (t -> c1 v c2) instead of one clause with
        // tens of thousands of literals, which a CDCL solver handles badly
        {
            let mut layer: Vec<i32> = violations.clone();
            while layer.len() > 1 {
                let mut up: Vec<i32> = Vec::with_capacity(layer.len() / 2 + 1);
                for pair in layer.chunks(2) {
                    if pair.len() == 1 {
                        up.push(pair[0]);
                    } else {
                        let t = fresh();
                        s.add_clause([-t, pair[0], pair[1]]);
                        up.push(t);
                    }
                }
                layer = up;
            }
            match layer.first() {
                Some(root) => s.add_clause([*root]),
                None => s.add_clause(std::iter::empty::<i32>()),
            }
        }
        ctx.eval();
        match s.solve() {
            None => {
                ctx.inconclusive("reference-solver-undecided");
                return None;
            }
            Some(false) => ctx.count("big/no-model-outside-the-family-proved-by-sat"),
            Some(true) => {
                let set: Vec<usize> = (0..n).filter(|i| s.value(lits[*i]) == Some(true)).collect();
                let range_hit: Vec<usize> = if with_range {
                    (0..n).filter(|a| s.value(violations[range_violation_from + *a]) == Some(true)).collect()
                } else {
                    vec![]
                };
                if !is_member(&set) {
                    return Some((
                        format!("C10/model-set-differs/{}/extra-model", name),
                        json!({"set": set, "cnf_satisfiable_with_exactly_this_set": true, "set_in_intended_family": false,
                               "family": format!("{:?}", fam), "n_vars": rec.n_vars(), "n_clauses": rec.clauses.len()}),
                    ));
                } else if !range_hit.is_empty() {
                    let range = rsat.range_of(&set);
                    if range_hit.iter().any(|a| !range[*a]) {
                        return Some((
                            format!("C10/range/range-variable-true-outside-range/{}", name),
                            json!({"set": set, "arguments": range_hit}),
                        ));
                    }
                    ctx.harness_error("C10 big: the violation definition fired on a range variable inside the range");
                    return None;
                } else {
                    ctx.harness_error("C10 big: the violation definition fired on a set that the definition check accepts");
                    return None;
                }
            }
        }
    }
    // ---- (2) members must have a model: sampled ----
    let mut members: Vec<Vec<usize>> = Vec::new();
    let close = |set: &mut Vec<bool>| {
        // prune to an admissible set, then close under the characteristic function
        loop {
            let attacked_by: Vec<bool> = (0..n).map(|b| attackers[b].iter().any(|a| set[*a])).collect();
            let mut changed = false;
            for a in 0..n {
                if set[a] && (attackers[a].iter().any(|b| !attacked_by[*b]) || attacked_by[a]) {
                    set[a] = false;
                    changed = true;
                }
            }
            if !changed {
                break;
            }
        }
    };
    let grow = |set: &mut Vec<bool>| loop {
        let attacked_by: Vec<bool> = (0..n).map(|b| attackers[b].iter().any(|a| set[*a])).collect();
        let mut changed = false;
        for a in 0..n {
            if !set[a] && attackers[a].iter().all(|b| attacked_by[*b]) {
                set[a] = true;
                changed = true;
            }
        }
        if !changed {
            break;
        }
    };
    let to_vec = |set: &Vec<bool>| -> Vec<usize> { (0..n).filter(|i| set[*i]).collect() };
    for _ in 0..12 {
        // greedy conflict-free set in random order
        let mut order: Vec<usize> = (0..n).collect();
        rng.shuffle(&mut order);
        let mut set = vec![false; n];
        let density = *rng.pick(&[20usize, 50, 100]);
        for a in order {
            if !rng.pct(density) || attackers[a].contains(&a) {
                continue;
            }
            let conflict = attackers[a].iter().any(|b| set[*b]) || targets[a].iter().any(|b| set[*b]);
            if !conflict {
                set[a] = true;
            }
        }
        match fam {
            Family::Cf => members.push(to_vec(&set)),
            Family::Adm => {
                close(&mut set);
                members.push(to_vec(&set));
            }
            Family::Co => {
                close(&mut set);
                grow(&mut set);
                members.push(to_vec(&set));
            }
            Family::St => {}
        }
    }
    {
        // members from the independent labelling encoding, under random constraints
        let mut rs2 = RefSat::new(&case.abs);
        let base = match fam {
            Family::Cf => Base::Cf,
            Family::Adm => Base::Adm,
            Family::Co => Base::Co,
            Family::St => Base::St,
        };
        for _ in 0..8 {
            let want: Vec<usize> = (0..rng.range(1, 3)).map(|_| rng.below(n)).collect();
            let avoid: Vec<usize> = (0..rng.range(0, 3)).map(|_| rng.below(n)).filter(|a| !want.contains(a)).collect();
            if let Some(m) = rs2.find(base, Some(&want), &avoid, None) {
                members.push(m);
            }
        }
        if let Some(m) = rs2.find(base, None, &[], None) {
            members.push(m);
        }
    }
    let mut s2 = base_solver();
    for m in members.iter() {
        if !is_member(m) {
            ctx.harness_error("C10 big: a generated member fails the definition check");
            return None;
        }
        ctx.eval();
        ctx.count("big/members-checked-for-a-model");
        let mut inn = vec![false; n];
        for a in m.iter() {
            inn[*a] = true;
        }
        let mut ass: Vec<i32> = (0..n).map(|i| if inn[i] { lits[i] } else { -lits[i] }).collect();
        if with_range {
            let range = rsat.range_of(m);
            for i in 0..n {
                ass.push(if range[i] { rvar(i) } else { -rvar(i) });
            }
        }
        match s2.solve_with(ass.iter().copied()) {
            Some(true) => {}
            Some(false) => {
                // tell a missing model from a range-only failure
                let plain: Vec<i32> = (0..n).map(|i| if inn[i] { lits[i] } else { -lits[i] }).collect();
                let sat_plain = s2.solve_with(plain.iter().copied()) == Some(true);
                return Some(if sat_plain {
                    (format!("C10/range/no-model-with-range-variables-equal-to-range/{}", name), json!({"set": m}))
                } else {
                    (
                        format!("C10/model-set-differs/{}/missing-model", name),
                        json!({"set": m, "cnf_satisfiable_with_exactly_this_set": false, "set_in_intended_family": true, "family": format!("{:?}", fam)}),
                    )
                });
            }
            None => ctx.inconclusive("reference-solver-undecided"),
        }
    }
    ctx.nontrivial(gen::case_hash(&case.abs, &[case.pres.kind(), &name]));
    ctx.sample(&format!("cnf/{}", name), || {
        json!({"case": case.short(), "encoder": name, "n_vars": rec.n_vars(), "n_clauses": rec.clauses.len(), "members_checked": members.len()})
    });
    None
}

fn eval_big_case(ctx: &mut Ctx, case: &StaticCase, rng: &mut Rng, only: Option<(Enc, bool)>) {
    fn go<T: HLabel>(ctx: &mut Ctx, case: &StaticCase, built: &Built<T>, rng: &mut Rng, only: Option<(Enc, bool)>) {
        if check_presents(built, &case.abs).is_err() {
            ctx.inconclusive("presentation-mismatch");
            return;
        }
        let cost = crate::props::static_eval::exp_cost_built(built);
        for enc in ENCODERS {
            if enc == Enc::ExpCo && cost > crate::props::static_eval::EXP_COST_LIMIT && case.family != "huge-product" {
                ctx.count("skipped/exp-encoder-clause-explosion");
                continue;
            }
            for with_range in [false, true] {
                if with_range && enc == Enc::Stable {
                    continue;
                }
                if with_range && case.abs.n > 1_000 && matches!(family_of(enc), Family::Cf | Family::Adm) {
                    // tens of thousands of free arguments: refuting "a range variable is true outside the
                    // range" costs one conflict per argument (half a minute per CNF); the range block of the
                    // complete encoders is validated at this size, the others up to 140 arguments
                    ctx.count("skipped/range-of-cf-adm-encoders-beyond-1000-arguments");
                    continue;
                }
                if let Some((e, r)) = only {
                    if e != enc || r != with_range {
                        continue;
                    }
                }
                let verdict = judge_encoder_big(ctx, case, built, enc, with_range, rng);
                if let Some((sig, detail)) = verdict {
                    let mut d = detail;
                    d["encoder"] = json!(enc.name());
                    d["with_range"] = json!(with_range);
                    d["big"] = json!(true);
                    ctx.violation(&sig, d, &case.to_json());
                }
            }
        }
    }
    ctx.count(&format!("cases/{}", case.family));
    if case.pres.is_usize() {
        match build_usize(&case.pres) {
            Ok(b) => go(ctx, case, &b, rng, only),
            Err(e) => ctx.harness_error(&e),
        }
    } else {
        match build_string(&case.pres) {
            Ok(b) => go(ctx, case, &b, rng, only),
            Err(e) => ctx.harness_error(&e),
        }
    }
}

/// Compact-id presentations only (readers, new_with_labels, plain API): what the encoders are fed.
fn compact_case(family: &str, i: u64, seed: u64, rng: &mut Rng) -> StaticCase {
    let lim = GenLimits {
        er_max: 7,
        ..Default::default()
    };
    let mut c = gen_case(family, i, seed, &lim);
    let kind = *rng.pick(&["iccma", "iccma-dup", "apx", "nwl-u", "nwl-s", "api-u", "api-s"]);
    c.pres = crate::present::present(&c.abs, kind, rng);
    c
}

/// Shared-defender shapes with product of defender-set sizes 31/32/33/36 and friends.
fn threshold_case(rng: &mut Rng) -> StaticCase {
    let sizes: Vec<usize> = match rng.below(8) {
        0 => vec![4, 4, 2],             // 32
        1 => vec![2, 2, 2, 2, 2],       // 32
        2 => vec![3, 11],               // 33
        3 => vec![6, 6],                // 36
        4 => vec![4, 8],                // 32
        5 => vec![2, 2, 2, 2, 2, 2],    // 64
        6 => vec![5, 6],                // 30
        _ => vec![2, 3, 5],             // 30
    };
    // defenders are shared between attackers to keep n <= 16
    let k = sizes.len();
    let pool = *sizes.iter().max().unwrap();
    let n = 1 + k + pool;
    let mut att = Vec::new();
    for (i, s) in sizes.iter().enumerate() {
        att.push((1 + i, 0));
        for d in 0..*s {
            att.push((1 + k + d, 1 + i));
        }
    }
    if rng.pct(50) {
        att.push((0, 1 + k));
    }
    let abs = Abs::new(n, att);
    let kind = *rng.pick(&["iccma", "apx", "nwl-u"]);
    let pres: Pres = crate::present::present(&abs, kind, rng);
    StaticCase {
        family: "threshold".to_string(),
        abs,
        pres,
    }
}

pub fn run(ctx: &mut Ctx) {
    let q = ctx.tier == Tier::Quick;
    let schedule: Vec<(&str, u64)> = vec![
        ("all2", 16),
        ("all3", 512),
        ("all4", if q { 0 } else { 65_536 }),
        ("er-small", if q { 6_000 } else { 100_000 }),
        ("er", if q { 3_000 } else { 50_000 }),
        ("lattice", if q { 2_000 } else { 30_000 }),
        ("dense", if q { 1_600 } else { 25_000 }),
        ("dup", if q { 1_600 } else { 25_000 }),
        ("threshold", if q { 640 } else { 8_000 }),
    ];
    // CNFs of 65-140 argument frameworks: exact "no model outside the family" by SAT, sampled members
    let n_big: u64 = if q { 240 } else { 4_000 };
    for i in 0..n_big {
        if !ctx.mine(i) {
            continue;
        }
        if ctx.out_of_time() {
            return;
        }
        let mut rng = Rng::from_path(&[ctx.seed, 10, 0xb16, i]);
        let lim = GenLimits { er_max: 7, big_min: 65, big_max: 140 };
        let fam = *rng.pick(&["big-conn", "big-conn", "big-union", "big-conn", "big-union", "fan-in"]);
        let mut case = if fam == "fan-in" {
            // two or three arguments with 31-40 attackers each (some of the attackers attacked in turn, most
            // not), in a framework of 68-120 arguments with a few more random attacks
            let n = rng.range(68, 120);
            let mut att: Vec<(usize, usize)> = Vec::new();
            for _ in 0..rng.range(2, 3) {
                let t = rng.below(n);
                let k = *rng.pick(&[31usize, 32, 33, 36, 40]);
                let mut picked: Vec<usize> = Vec::new();
                while picked.len() < k {
                    let a = rng.below(n);
                    if a != t && !picked.contains(&a) {
                        picked.push(a);
                    }
                }
                for a in picked.iter() {
                    att.push((*a, t));
                    if rng.pct(12) {
                        att.push((rng.below(n), *a));
                    }
                }
            }
            // ... next to arguments whose defender sets multiply to 32 or more (k attackers, each attacked by
            // some of d shared defenders), at ids below and above the wide ones, and sometimes one argument
            // attacking every attacker of a wide one
            for _ in 0..rng.range(0, 3) {
                let sizes: &[usize] = match rng.below(4) {
                    0 => &[4, 4, 2],
                    1 => &[2, 2, 2, 2, 2],
                    2 => &[6, 6],
                    _ => &[3, 11],
                };
                let t = rng.below(n);
                let pool: Vec<usize> = (0..11).map(|_| rng.below(n)).collect();
                for sz in sizes.iter() {
                    let b = rng.below(n);
                    att.push((b, t));
                    for d in pool.iter().take(*sz) {
                        att.push((*d, b));
                    }
                }
            }
            if rng.pct(40) && !att.is_empty() {
                let (_, t) = att[0];
                let u = rng.below(n);
                let attackers: Vec<usize> = att.iter().filter(|(_, b)| *b == t).map(|(a, _)| *a).collect();
                for a in attackers {
                    if a != u {
                        att.push((u, a));
                    }
                }
            }
            for _ in 0..rng.range(0, 25) {
                att.push((rng.below(n), rng.below(n)));
            }
            att.sort();
            att.dedup();
            rng.shuffle(&mut att);
            StaticCase { family: "fan-in".to_string(), abs: Abs::new(n, att), pres: Pres::Iccma { text: String::new() } }
        } else {
            gen_case(fam, i, ctx.seed, &lim)
        };
        let kind = *rng.pick(&["iccma", "iccma-dup", "apx", "nwl-u", "nwl-s"]);
        case.pres = crate::present::present(&case.abs, kind, &mut rng);
        ctx.case_begin(&json!({"family": fam, "i": i, "big": true}));
        crate::report::guarded(ctx, |ctx| eval_big_case(ctx, &case, &mut rng, None));
    }
    // defender-set products of 2^16 and beyond (65 536 ... 262 144 product clauses from the exp encoder): one
    // argument, k attackers, each attacked by the same d mutually attacking defenders
    let shapes: [(usize, usize); 5] = [(16, 2), (17, 2), (11, 3), (9, 4), (8, 5)];
    for (k, (attackers, defenders)) in shapes.iter().enumerate() {
        if !ctx.mine(k as u64 * 5 + 2) {
            continue;
        }
        if ctx.out_of_time() {
            return;
        }
        let mut rng = Rng::from_path(&[ctx.seed, 10, 0x9d0d, k as u64]);
        let n = 1 + attackers + defenders;
        let mut att: Vec<(usize, usize)> = Vec::new();
        for b in 0..*attackers {
            att.push((1 + b, 0));
            for d in 0..*defenders {
                att.push((1 + attackers + d, 1 + b));
            }
        }
        for d in 0..*defenders {
            for e in 0..*defenders {
                if d != e {
                    att.push((1 + attackers + d, 1 + attackers + e));
                }
            }
        }
        rng.shuffle(&mut att);
        let abs = Abs::new(n, att);
        let kind = *rng.pick(&["iccma", "apx", "nwl-u"]);
        let pres: Pres = crate::present::present(&abs, kind, &mut rng);
        let case = StaticCase { family: "huge-product".to_string(), abs, pres };
        ctx.case_begin(&json!({"family": "huge-product", "attackers": attackers, "defenders": defenders}));
        ctx.count("cases/defender-set-product-of-2^16-or-more");
        crate::report::guarded(ctx, |ctx| eval_big_case(ctx, &case, &mut rng, None));
    }
    // declared sizes at and beyond 2^16 (almost all arguments isolated, attacks among the first ids, the
    // ids around 65 535 and the last ones): per-argument tables indexed or stamped with 16-bit values
    let huge_sizes: [usize; 5] = [65_535, 65_536, 65_537, 65_600, 70_000];
    for (k, n) in huge_sizes.iter().enumerate() {
        let reps: u64 = if q { 1 } else { 6 };
        for rep in 0..reps {
            let i = (k as u64) * 6 + rep;
            if !ctx.mine(i * 3 + 1) {
                continue;
            }
            if ctx.out_of_time() {
                return;
            }
            let mut rng = Rng::from_path(&[ctx.seed, 10, 0x4096e, i]);
            let n = *n;
            let mut corners: Vec<usize> = vec![0, 1, 2, n - 3, n - 2, n - 1];
            for c in [65_533usize, 65_534, 65_535, 65_536] {
                if c < n {
                    corners.push(c);
                }
            }
            let mut att: Vec<(usize, usize)> = Vec::new();
            for _ in 0..rng.range(3, 12) {
                let a = *rng.pick(&corners);
                let b = *rng.pick(&corners);
                if !att.contains(&(a, b)) {
                    att.push((a, b));
                }
            }
            for _ in 0..rng.range(0, 4) {
                att.push((rng.below(n), rng.below(n)));
            }
            let abs = Abs::new(n, att);
            let mut text = format!("p af {}\n", n);
            for (a, b) in abs.att.iter() {
                text.push_str(&format!("{} {}\n", a + 1, b + 1));
            }
            let case = StaticCase { family: "huge-sparse".to_string(), abs, pres: Pres::Iccma { text } };
            ctx.case_begin(&json!({"family": "huge-sparse", "n": n, "rep": rep}));
            ctx.count("cases/huge-sparse-2^16-boundary");
            crate::report::guarded(ctx, |ctx| eval_big_case(ctx, &case, &mut rng, None));
        }
    }
    let mut gi = 0u64;
    for (family, count) in schedule {
        for i in 0..count {
            gi += 1;
            if !ctx.mine(gi) {
                continue;
            }
            if ctx.out_of_time() {
                return;
            }
            let mut rng = Rng::from_path(&[ctx.seed, 10, crate::cases::fam_hash(family), i]);
            let case = if family == "threshold" {
                threshold_case(&mut rng)
            } else {
                compact_case(family, i, ctx.seed, &mut rng)
            };
            if case.abs.n > 16 {
                continue;
            }
            ctx.case_begin(&json!({"family": family, "i": i}));
            crate::report::guarded(ctx, |ctx| eval_case(ctx, &case, None));
        }
    }
}

pub fn replay(ctx: &mut Ctx, case: &Value, detail: &Value) -> Result<(), String> {
    let c = StaticCase::from_json(case).ok_or("bad case")?;
    let only = detail
        .get("encoder")
        .and_then(|e| e.as_str())
        .and_then(Enc::from_name)
        .map(|e| (e, detail.get("with_range").and_then(|r| r.as_bool()).unwrap_or(false)));
    if detail.get("big").and_then(|b| b.as_bool()).unwrap_or(false) {
        let mut rng = Rng::new(5);
        eval_big_case(ctx, &c, &mut rng, only);
    } else {
        eval_case(ctx, &c, only);
    }
    Ok(())
}
