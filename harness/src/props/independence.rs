//! Check C06: answers do not depend on encoding, SAT backend, certificate flag or query order;
//! querying never modifies the framework.

use crate::cases::{gen_case, GenLimits, StaticCase};
use crate::gen;
use crate::monitor::{self, Backend};
use crate::oracle::Oracle;
use crate::present::{build_string, build_usize, check_presents, Built, HLabel};
use crate::props::static_eval::{exp_cost_built, targets, Target, EXP_COST_LIMIT};
use crate::props::store_io::observe;
use crate::refsem::Sem;
use crate::report::{Ctx, Tier};
use crate::rng::Rng;
use crate::solvers::{ask, ask_fresh, Enc, QKind, QOut, Query, SolverType, StaticSolver};
use serde_json::{json, Value};

fn msat(ctx: &Ctx) -> String {
    ctx.bin_dir.join("msat").to_string_lossy().to_string()
}

fn all_backends(ctx: &Ctx, external: bool) -> Vec<Backend> {
    let mut v = vec![Backend::Cadical, Backend::Dpll];
    if external {
        v.push(Backend::External(msat(ctx), vec![]));
        v.push(Backend::External("kissat".to_string(), vec!["-q".to_string()]));
    }
    v
}

fn usable<T: HLabel>(built: &Built<T>, t: &Target) -> Vec<Enc> {
    let cost = exp_cost_built(built);
    t.ty.configs(t.kind)
        .into_iter()
        .filter(|e| !(*e == Enc::ExpCo && cost > EXP_COST_LIMIT))
        // objects built by the factory-less constructor carry no monitor (no call cap, no wall-clock cap):
        // not on frameworks where one enumeration may legitimately be huge
        .filter(|e| !(*e == Enc::New && built.labels.len() > 40))
        .collect()
}

/// What must be equal across configurations: the status; for SE the answer *class* (some / none).
fn observable(o: &QOut) -> Value {
    match o {
        QOut::Ext(None) => json!("no-extension"),
        QOut::Ext(Some(_)) => json!("extension"),
        QOut::Status(b, _) => json!(b),
    }
}

fn expected(oracle: &mut Oracle, t: &Target, q: &Query) -> Option<Value> {
    match q.kind {
        QKind::SE => oracle.has_ext(t.sem).map(|h| if h { json!("extension") } else { json!("no-extension") }),
        QKind::DC => oracle.cred(t.sem, &q.args).map(|b| json!(b)),
        QKind::DS => oracle.skep(t.sem, &q.args).map(|b| json!(b)),
    }
}

/// (1) the configuration lattice.
fn configs<T: HLabel>(ctx: &mut Ctx, case: &StaticCase, built: &Built<T>, oracle: &mut Oracle, rng: &mut Rng, external: bool, focus: Option<&Value>) {
    let cj = case.to_json();
    // the harness's own DPLL backend is exponential on connected frameworks of dozens of arguments: small ones only
    let backends: Vec<Backend> = all_backends(ctx, external).into_iter().filter(|b| !(matches!(b, Backend::Dpll) && case.abs.n > 40)).collect();
    let n_comps = case.abs.components().len();
    for t in targets().iter() {
        if t.ty == SolverType::Grounded {
            continue;
        }
        if let Some(f) = focus {
            if f.get("problem").and_then(|p| p.as_str()) != Some(&t.problem()) {
                continue;
            }
        } else if external && !rng.pct(35) {
            continue;
        }
        let encs = usable(built, t);
        let queries: Vec<Vec<usize>> = if t.kind == QKind::SE {
            vec![vec![]]
        } else if case.abs.n == 0 {
            vec![]
        } else if let Some(a) = focus.and_then(|f| f.get("query")).and_then(|q| q.get("args")).and_then(|a| a.as_array()) {
            vec![a.iter().filter_map(|x| x.as_u64().map(|x| x as usize)).collect()]
        } else if case.abs.n <= 4 && !external {
            (0..case.abs.n).map(|a| vec![a]).collect()
        } else {
            (0..(if external { 1 } else { 3 })).map(|_| vec![rng.below(case.abs.n)]).collect()
        };
        // a query is a *list* of arguments (disjunction): lists of 2-3 arguments, possibly repeated
        let mut queries = queries;
        if t.kind != QKind::SE && case.abs.n >= 2 && focus.is_none() && rng.pct(if external { 25 } else { 60 }) {
            let k = 2 + rng.below(2);
            queries.push((0..k).map(|_| rng.below(case.abs.n)).collect());
            ctx.count("queries/argument-lists");
        }
        for args in queries {
            let base_q = Query { kind: t.kind, args: args.clone(), cert: false };
            let exp = expected(oracle, t, &base_q);
            // reference configuration
            let h0 = monitor::new_handle();
            h0.borrow_mut().cap = Some(50_000);
            let r0 = ask_fresh(built, t.ty, encs[0], monitor::monitored_factory(Backend::Cadical, h0.clone()), &base_q);
            let calls0 = h0.borrow().n_calls;
            ctx.eval();
            let ref_obs = match &r0 {
                Ok(o) => observable(o),
                Err(p) => {
                    ctx.violation(
                        &format!("C06/configuration-fails/{}/{}/cadical", t.problem(), encs[0].name()),
                        json!({"problem": t.problem(), "encoder": encs[0].name(), "query": base_q.to_json(), "panic": p.to_json()}),
                        &cj,
                    );
                    continue;
                }
            };
            if let Some(e) = &exp {
                if *e != ref_obs {
                    ctx.violation(
                        &format!("C06/common-mode/reference-configuration-wrong/{}", t.problem()),
                        json!({"problem": t.problem(), "encoder": encs[0].name(), "query": base_q.to_json(), "expected": e, "observed": ref_obs}),
                        &cj,
                    );
                    continue;
                }
            }
            // star around the reference + a few random combinations
            let mut combos: Vec<(Enc, Backend, bool, &'static str)> = Vec::new();
            for e in encs.iter().skip(1) {
                combos.push((*e, Backend::Cadical, false, "encoding"));
            }
            for b in backends.iter().skip(1) {
                combos.push((encs[0], b.clone(), false, "backend"));
            }
            if t.kind != QKind::SE {
                combos.push((encs[0], Backend::Cadical, true, "certificate"));
            }
            for _ in 0..2 {
                let e = encs[rng.below(encs.len())];
                // `new(af)` takes no factory: it always runs on the embedded solver
                let b = if e == Enc::New { Backend::Cadical } else { backends[rng.below(backends.len())].clone() };
                let c = t.kind != QKind::SE && rng.pct(50);
                combos.push((e, b, c, "combination"));
            }
            for (e, b, c, dim) in combos {
                ctx.eval();
                let q = Query { kind: t.kind, args: args.clone(), cert: c };
                let r = ask_fresh(built, t.ty, e, monitor::plain_factory(b.clone()), &q);
                ctx.count(&format!("configurations/{}", dim));
                ctx.count(&format!("backend_runs/{}", b.name()));
                let bname = match &b {
                    Backend::External(p, _) => format!("ext:{}", p.rsplit('/').next().unwrap_or(p)),
                    x => x.name(),
                };
                match r {
                    Err(p) => {
                        ctx.violation(
                            &format!("C06/configuration-fails/{}/{}/{}", t.problem(), e.name(), bname),
                            json!({"problem": t.problem(), "encoder": e.name(), "backend": bname, "query": q.to_json(), "panic": p.to_json(),
                                   "reference_answer": ref_obs}),
                            &cj,
                        );
                    }
                    Ok(o) => {
                        let obs = observable(&o);
                        if obs != ref_obs {
                            ctx.violation(
                                &format!("C06/status-depends-on-{}/{}", dim, t.problem()),
                                json!({"problem": t.problem(), "query": q.to_json(), "reference": {"encoder": encs[0].name(), "backend": "cadical", "certificate": false, "answer": ref_obs},
                                       "other": {"encoder": e.name(), "backend": bname, "certificate": c, "answer": obs}, "oracle": exp}),
                                &cj,
                            );
                        }
                    }
                }
            }
            if calls0 >= 2 || n_comps >= 2 {
                let s = format!("{:?}", args);
                ctx.nontrivial(gen::case_hash(&case.abs, &[case.pres.kind(), &t.problem(), &s, if external { "ext" } else { "emb" }]));
            }
            ctx.sample(&format!("configs/{}", t.problem()), || {
                json!({"case": case.short(), "problem": t.problem(), "arguments": args, "answer": ref_obs, "sat_calls_reference": calls0,
                       "encoders": encs.iter().map(|e| e.name()).collect::<Vec<_>>(), "backends": backends.iter().map(|b| b.name()).collect::<Vec<_>>()})
            });
        }
    }
}

/// (2) order and repetition on one solver object; (3) the framework is not modified.
fn order<T: HLabel>(ctx: &mut Ctx, case: &StaticCase, built: &Built<T>, oracle: &mut Oracle, rng: &mut Rng, focus: Option<&Value>) {
    let cj = case.to_json();
    let before = observe(&built.af);
    for ty in crate::solvers::ALL_SOLVER_TYPES {
        if let Some(f) = focus {
            if f.get("solver_type").and_then(|p| p.as_str()) != Some(ty.name()) {
                continue;
            }
        }
        // queries this type supports under its own semantics
        let mut pool: Vec<Query> = Vec::new();
        for k in [QKind::SE, QKind::DC, QKind::DS] {
            if !ty.supports(k) {
                continue;
            }
            if k == QKind::SE {
                pool.push(Query { kind: k, args: vec![], cert: false });
            } else {
                for a in 0..case.abs.n.min(6) {
                    pool.push(Query { kind: k, args: vec![a], cert: false });
                    pool.push(Query { kind: k, args: vec![a], cert: true });
                }
                // pairs and triples too: what an object learnt from single-argument queries must not be
                // combined into an answer for a list
                if case.abs.n >= 2 && focus.is_none() {
                    for _ in 0..4 {
                        let l: Vec<usize> = (0..2 + rng.below(2)).map(|_| rng.below(case.abs.n.min(6))).collect();
                        pool.push(Query { kind: k, args: l.clone(), cert: false });
                        pool.push(Query { kind: k, args: l, cert: true });
                    }
                }
            }
        }
        if pool.is_empty() {
            continue;
        }
        let t_for = |k: QKind| -> Target {
            Target { ty, kind: k, sem: ty.sem(), cert_sem: if ty == SolverType::Complete { Sem::CO } else { ty.sem() } }
        };
        let encs = usable(built, &t_for(if ty.supports(QKind::DS) { QKind::DS } else { QKind::DC }));
        let enc = match focus.and_then(|f| f.get("encoder")).and_then(|e| e.as_str()).and_then(Enc::from_name) {
            Some(e) => e,
            None => encs[rng.below(encs.len())],
        };
        // a random sequence with repetitions
        let seq: Vec<Query> = match focus.and_then(|f| f.get("sequence")).and_then(|s| s.as_array()) {
            Some(a) => a
                .iter()
                .filter_map(|q| {
                    Some(Query {
                        kind: QKind::from_name(q.get("kind")?.as_str()?)?,
                        args: q.get("args")?.as_array()?.iter().filter_map(|x| x.as_u64().map(|x| x as usize)).collect(),
                        cert: q.get("cert")?.as_bool()?,
                    })
                })
                .collect(),
            None => (0..rng.range(4, 14)).map(|_| pool[rng.below(pool.len())].clone()).collect(),
        };
        let h = monitor::new_handle();
        h.borrow_mut().cap = Some(200_000);
        let mut solver = StaticSolver::new(&built.af, ty, enc, monitor::monitored_factory(Backend::Cadical, h.clone()));
        let mut history: Vec<Value> = Vec::new();
        for q in seq.iter() {
            ctx.eval();
            history.push(q.to_json());
            let r = ask(built, &mut solver, q);
            let fresh = ask_fresh(built, ty, enc, monitor::plain_factory(Backend::Cadical), q);
            ctx.count("order/queries-on-reused-object");
            let t = t_for(q.kind);
            let detail = |what: &str, extra: Value| -> Value {
                json!({"solver_type": ty.name(), "encoder": enc.name(), "sequence": history, "what": what, "extra": extra})
            };
            match (&r, &fresh) {
                (Ok(a), Ok(b)) => {
                    if observable(a) != observable(b) {
                        ctx.violation(
                            &format!("C06/answer-depends-on-earlier-queries/{}/{}", ty.name(), enc.name()),
                            detail("the reused object and a fresh object disagree", json!({"reused": a.to_json(), "fresh": b.to_json()})),
                            &cj,
                        );
                        break;
                    }
                    if let Some(e) = expected(oracle, &t, q) {
                        if e != observable(a) {
                            ctx.violation(
                                &format!("C06/common-mode/reused-and-fresh-wrong/{}/{}", ty.name(), enc.name()),
                                detail("both objects disagree with the oracle", json!({"answer": a.to_json(), "expected": e})),
                                &cj,
                            );
                            break;
                        }
                    }
                }
                (Err(p), Ok(_)) => {
                    ctx.violation(
                        &format!("C06/reused-object-fails/{}/{}", ty.name(), enc.name()),
                        detail("the reused object panicked where a fresh one answers", p.to_json()),
                        &cj,
                    );
                    break;
                }
                _ => {
                    // a fresh object failing is reported by the configuration part / C01-C04
                    break;
                }
            }
        }
        drop(solver);
        if seq.len() >= 4 {
            let s = serde_json::to_string(&seq.iter().map(|q| q.to_json()).collect::<Vec<_>>()).unwrap();
            ctx.nontrivial(gen::case_hash(&case.abs, &[ty.name(), enc.name(), &s]));
        }
        ctx.sample(&format!("order/{}", ty.name()), || json!({"case": case.short(), "solver_type": ty.name(), "encoder": enc.name(), "sequence": history}));
    }
    let after = observe(&built.af);
    ctx.eval();
    ctx.count("framework_snapshots_compared");
    if before != after {
        ctx.violation("C06/framework-modified-by-queries", json!({"what": "public observables of the framework differ before and after querying"}), &cj);
    }
}

/// (4) through the command line: `--encoding` x `--external-sat-solver`.
fn cli(ctx: &mut Ctx, case: &StaticCase, rng: &mut Rng, focus: Option<&Value>) {
    if case.abs.n == 0 || case.abs.n > 6 {
        return;
    }
    let dir = ctx.out_dir.join(format!("c06-cli-{}", ctx.shard));
    let _ = std::fs::create_dir_all(&dir);
    let file = dir.join("instance.af");
    let mut text = format!("p af {}\n", case.abs.n);
    for (a, b) in case.abs.att.iter() {
        text.push_str(&format!("{} {}\n", a + 1, b + 1));
    }
    if std::fs::write(&file, &text).is_err() {
        ctx.harness_error("cannot write instance");
        return;
    }
    let problems = ["DC-CO", "DC-PR", "DS-PR", "DC-SST", "DS-SST", "DC-STG", "DS-STG", "DC-ID", "DS-ID", "DC-ST", "DS-ST"];
    // the stage problems have their own encoder table in the binary: always try one of them too
    let probs: Vec<String> = match focus.and_then(|f| f.get("problem")).and_then(|p| p.as_str()) {
        Some(p) => vec![p.to_string()],
        None => vec![rng.pick(&["DC-STG", "DS-STG"]).to_string(), rng.pick(&problems).to_string()],
    };
    for prob in probs {
        let arg = focus.and_then(|f| f.get("argument")).and_then(|a| a.as_u64()).map(|a| a as usize).unwrap_or_else(|| 1 + rng.below(case.abs.n));
        cli_one(ctx, case, &file, &prob, arg, false);
    }
}

/// (4b) every acceptance problem x every argument of a small framework, default encoding, under
/// {embedded, msat, kissat} x {status only, certificate}: a short cut taken under one backend or one
/// certificate setting only shows on particular (problem, argument) pairs, which sampling one pair misses.
fn cli_sweep(ctx: &mut Ctx, case: &StaticCase, focus: Option<&Value>) {
    if case.abs.n == 0 || case.abs.n > 6 {
        return;
    }
    let dir = ctx.out_dir.join(format!("c06-cli-{}", ctx.shard));
    let _ = std::fs::create_dir_all(&dir);
    let file = dir.join("instance-sweep.af");
    let mut text = format!("p af {}\n", case.abs.n);
    for (a, b) in case.abs.att.iter() {
        text.push_str(&format!("{} {}\n", a + 1, b + 1));
    }
    if std::fs::write(&file, &text).is_err() {
        ctx.harness_error("cannot write instance");
        return;
    }
    if let Some(f) = focus {
        if let (Some(p), Some(a)) = (f.get("problem").and_then(|p| p.as_str()), f.get("argument").and_then(|a| a.as_u64())) {
            cli_one(ctx, case, &file, p, a as usize, true);
            return;
        }
    }
    ctx.count("cli_sweeps/every-acceptance-problem-and-argument");
    for q in ["DC", "DS"] {
        for s in ["CO", "PR", "ST", "SST", "STG", "ID", "GR"] {
            for arg in 1..=case.abs.n {
                cli_one(ctx, case, &file, &format!("{}-{}", q, s), arg, true);
            }
        }
    }
}

fn cli_one(ctx: &mut Ctx, case: &StaticCase, file: &std::path::Path, prob: &str, arg: usize, sweep: bool) {
    let prob = prob.to_string();
    let bin = ctx.repo_bin_dir.join("crustabri");
    let msat_p = msat(ctx);
    let mut first: Option<(String, String)> = None;
    let expected_line: Option<String> = crate::refsem::RefSem::new(&case.abs).ok().and_then(|rs| {
        let (q, s) = prob.split_once('-')?;
        let sem = Sem::from_name(s)?;
        let m = 1u32 << (arg - 1);
        let b = if q == "DC" { rs.cred(sem, m) } else { rs.skep(sem, m) };
        Some(if b { "YES".to_string() } else { "NO".to_string() })
    });
    let exp_too_costly = crate::props::static_eval::exp_cost(&case.abs) > 2000;
    let encs: &[Option<&str>] = if sweep { &[None] } else { &[None, Some("aux_var"), Some("exp"), Some("hybrid")] };
    for enc in encs.iter().copied() {
        // "launcher": the external solver is started through `timeout 60 <msat> vsplit=1`, i.e. with
        // several --external-sat-solver-opt values that must all reach the process, in order
        for ext in [None, Some(msat_p.as_str()), Some("kissat"), Some("launcher")] {
            if sweep && ext == Some("launcher") {
                continue;
            }
            for cert in [false, true] {
                // the sweep keeps three corners of the backend x certificate square (a process costs 50 ms):
                // embedded / status only, msat / status only, kissat / certificate
                if sweep && cert != (ext == Some("kissat")) {
                    continue;
                }
                if ext.is_some() && cert && enc.is_some() {
                    continue; // keep the number of processes moderate
                }
                if enc == Some("exp") && exp_too_costly {
                    continue;
                }
                let mut cmd = std::process::Command::new(&bin);
                cmd.env("RUST_BACKTRACE", "0");
                cmd.args(["solve", "-f", file.to_str().unwrap(), "-p", &prob, "-a", &arg.to_string(), "--logging-level", "off"]);
                if let Some(e) = enc {
                    cmd.args(["--encoding", e]);
                }
                if let Some(x) = ext {
                    if x == "launcher" {
                        if enc.is_some() || cert {
                            continue;
                        }
                        cmd.args(["--external-sat-solver", "timeout"]);
                        cmd.args(["--external-sat-solver-opt", "60", "--external-sat-solver-opt", &msat_p, "--external-sat-solver-opt", "vsplit=1"]);
                    } else {
                        cmd.args(["--external-sat-solver", x]);
                        if x == "kissat" {
                            cmd.args(["--external-sat-solver-opt=-q"]);
                        }
                    }
                }
                if cert {
                    cmd.arg("-c");
                }
                let out = match cmd.output() {
                    Ok(o) => o,
                    Err(e) => {
                        ctx.harness_error(&format!("cannot run {:?}: {}", bin, e));
                        return;
                    }
                };
                ctx.eval();
                ctx.count("cli_runs");
                if sweep {
                    ctx.count(if ext.is_some() { "cli_sweep_runs/external-backend" } else { "cli_sweep_runs/embedded-backend" });
                }
                let so = String::from_utf8_lossy(&out.stdout).to_string();
                let status = so.lines().next().unwrap_or("").to_string();
                let cfg = format!("encoding={:?} external={:?} certificate={}", enc, ext.map(|x| x.rsplit('/').next().unwrap_or(x)), cert);
                if !out.status.success() {
                    ctx.violation(
                        &format!("C06/cli-configuration-fails/{}", prob),
                        json!({"problem": prob, "argument": arg, "configuration": cfg, "exit_status": out.status.code(),
                               "stderr": String::from_utf8_lossy(&out.stderr).chars().take(300).collect::<String>()}),
                        &json!({"sub": if sweep { "cli-sweep" } else { "cli" }, "case": case.to_json()}),
                    );
                    return;
                }
                if let Some(e) = &expected_line {
                    if *e != status {
                        ctx.violation(
                            &format!("C06/cli-status-wrong-under-configuration/{}", prob),
                            json!({"problem": prob, "argument": arg, "configuration": cfg, "status": status, "expected": e}),
                            &json!({"sub": if sweep { "cli-sweep" } else { "cli" }, "case": case.to_json()}),
                        );
                        return;
                    }
                }
                match &first {
                    None => first = Some((status, cfg)),
                    Some((s0, c0)) => {
                        if *s0 != status {
                            ctx.violation(
                                &format!("C06/cli-status-depends-on-configuration/{}", prob),
                                json!({"problem": prob, "argument": arg, "first": {"configuration": c0, "status": s0}, "other": {"configuration": cfg, "status": status}}),
                                &json!({"sub": if sweep { "cli-sweep" } else { "cli" }, "case": case.to_json()}),
                            );
                            return;
                        }
                    }
                }
            }
        }
    }
    let s = format!("{}{}", prob, arg);
    if !sweep || expected_line.as_deref() == Some("YES") {
        ctx.nontrivial(gen::case_hash(&case.abs, &["cli", &s]));
    }
}

/// Order and repetition on *dynamic* solver objects: the framework is loaded through updates, then
/// a random sequence of queries (both kinds where supported, with and without certificate, with
/// repetitions, no update in between) must each agree with the oracle.
fn order_dynamic(ctx: &mut Ctx, case: &StaticCase, rng: &mut Rng) {
    use crate::present::Op;
    use crate::props::dynamic::{make_solver, DynKind};
    if case.abs.n == 0 || case.abs.n > 9 {
        return;
    }
    let rs = match crate::refsem::RefSem::new(&case.abs) {
        Ok(r) => r,
        Err(_) => return,
    };
    let kinds = [DynKind::Co, DynKind::St, DynKind::Pr, DynKind::CoAtt(2.0), DynKind::StAtt(1.5)];
    let kind = kinds[rng.below(kinds.len())].clone();
    let h = monitor::new_handle();
    h.borrow_mut().cap = Some(100_000);
    let mut solver = match make_solver(&kind, h.clone(), Backend::Cadical) {
        Ok(s) => s,
        Err(_) => return,
    };
    for a in 0..case.abs.n {
        if !matches!(solver.update(&Op::AddArg(a + 1)), Ok(Ok(()))) {
            return;
        }
    }
    for (a, b) in case.abs.att_set() {
        if !matches!(solver.update(&Op::AddAtt(a + 1, b + 1)), Ok(Ok(()))) {
            return;
        }
    }
    let mut history: Vec<Value> = Vec::new();
    for _ in 0..rng.range(4, 14) {
        let cred = match (kind.dc_sem(), kind.ds_sem()) {
            (Some(_), Some(_)) => rng.pct(50),
            (Some(_), None) => true,
            _ => false,
        };
        let sem = if cred { kind.dc_sem().unwrap() } else { kind.ds_sem().unwrap() };
        let a = rng.below(case.abs.n);
        let cert = rng.pct(50);
        history.push(json!([if cred { "dc" } else { "ds" }, a, cert]));
        ctx.eval();
        ctx.count("order/queries-on-reused-dynamic-object");
        let exp = if cred { rs.cred(sem, 1 << a) } else { rs.skep(sem, 1 << a) };
        match solver.query(cred, a + 1, cert) {
            Ok((st, _)) => {
                if st != exp {
                    ctx.violation(
                        &format!("C06/answer-depends-on-earlier-queries/{}", kind.name()),
                        json!({"solver_type": kind.name(), "sequence": history, "expected": exp, "observed": st}),
                        &case.to_json(),
                    );
                    return;
                }
            }
            Err(p) => {
                ctx.violation(
                    &format!("C06/reused-object-fails/{}", kind.name()),
                    json!({"solver_type": kind.name(), "sequence": history, "panic": p.to_json()}),
                    &case.to_json(),
                );
                return;
            }
        }
    }
}

fn eval(ctx: &mut Ctx, case: &StaticCase, rng: &mut Rng, mode: &str, focus: Option<&Value>) {
    let mut oracle = match Oracle::for_graph(&case.abs) {
        Ok(o) => o,
        Err(e) => {
            ctx.harness_error(&e.0);
            return;
        }
    };
    fn go<T: HLabel>(ctx: &mut Ctx, case: &StaticCase, built: &Built<T>, oracle: &mut Oracle, rng: &mut Rng, mode: &str, focus: Option<&Value>) {
        if check_presents(built, &case.abs).is_err() {
            ctx.inconclusive("presentation-mismatch");
            return;
        }
        match mode {
            "configs-embedded" => configs(ctx, case, built, oracle, rng, false, focus),
            "configs-external" => configs(ctx, case, built, oracle, rng, true, focus),
            "order" => order(ctx, case, built, oracle, rng, focus),
            _ => {}
        }
    }
    ctx.count(&format!("cases/{}", mode));
    if mode == "order" {
        order_dynamic(ctx, case, rng);
    }
    if mode == "cli" {
        cli(ctx, case, rng, focus);
        return;
    }
    if mode == "cli-sweep" {
        cli_sweep(ctx, case, focus);
        return;
    }
    if case.pres.is_usize() {
        if let Ok(b) = build_usize(&case.pres) {
            go(ctx, case, &b, &mut oracle, rng, mode, focus);
        }
    } else if let Ok(b) = build_string(&case.pres) {
        go(ctx, case, &b, &mut oracle, rng, mode, focus);
    }
}

pub fn run(ctx: &mut Ctx) {
    let q = ctx.tier == Tier::Quick;
    let lim = GenLimits { er_max: 9, big_min: 20, big_max: ctx.tier.pick(60, 150) };
    let schedule: Vec<(&str, &str, u64)> = vec![
        ("configs-embedded", "er", if q { 500 } else { 12_000 }),
        ("configs-embedded", "union", if q { 400 } else { 10_000 }),
        ("configs-embedded", "lattice", if q { 300 } else { 8_000 }),
        ("configs-embedded", "dense", if q { 150 } else { 4_000 }),
        ("configs-embedded", "all3", if q { 256 } else { 512 }),
        ("configs-embedded", "big-conn", if q { 20 } else { 400 }),
        ("configs-external", "er-small", if q { 220 } else { 5_000 }),
        ("configs-external", "union", if q { 120 } else { 3_000 }),
        ("configs-external", "lattice", if q { 100 } else { 2_500 }),
        ("order", "er", if q { 600 } else { 15_000 }),
        ("order", "union", if q { 500 } else { 12_000 }),
        ("order", "lattice", if q { 400 } else { 10_000 }),
        ("order", "dup", if q { 150 } else { 4_000 }),
        ("cli", "er-small", if q { 24 } else { 400 }),
        ("cli", "union", if q { 40 } else { 600 }),
        ("cli", "lattice", if q { 40 } else { 600 }),
        ("cli-sweep", "er-small", if q { 24 } else { 100 }),
        ("cli-sweep", "union", if q { 16 } else { 60 }),
        ("cli-sweep", "lattice", if q { 8 } else { 40 }),
    ];
    let mut gi = 0u64;
    for (mode, family, count) in schedule {
        for i in 0..count {
            gi += 1;
            if !ctx.mine(gi) {
                continue;
            }
            if ctx.out_of_time() {
                return;
            }
            let mut rng = Rng::from_path(&[ctx.seed, 6, crate::cases::fam_hash(mode), crate::cases::fam_hash(family), i]);
            let case = gen_case(family, i, ctx.seed.wrapping_add(crate::cases::fam_hash(mode)), &lim);
            if mode == "configs-external" && case.abs.n > 7 {
                continue;
            }
            ctx.case_begin(&json!({"mode": mode, "family": family, "i": i}));
            crate::report::guarded(ctx, |ctx| eval(ctx, &case, &mut rng, mode, None));
        }
    }
}

pub fn replay(ctx: &mut Ctx, case: &Value, detail: &Value, signature: &str) -> Result<(), String> {
    let mut rng = Rng::new(6);
    if case.get("sub").and_then(|s| s.as_str()) == Some("cli-sweep") {
        let c = StaticCase::from_json(&case["case"]).ok_or("bad case")?;
        eval(ctx, &c, &mut rng, "cli-sweep", Some(detail));
        return Ok(());
    }
    if case.get("sub").and_then(|s| s.as_str()) == Some("cli") {
        let c = StaticCase::from_json(&case["case"]).ok_or("bad case")?;
        eval(ctx, &c, &mut rng, "cli", Some(detail));
        return Ok(());
    }
    let c = StaticCase::from_json(case).ok_or("bad case")?;
    let mode = if signature.contains("earlier-queries") || signature.contains("reused") || signature.contains("framework-modified") {
        "order"
    } else if detail.to_string().contains("ext:") {
        "configs-external"
    } else {
        "configs-embedded"
    };
    eval(ctx, &c, &mut rng, mode, Some(detail));
    Ok(())
}
