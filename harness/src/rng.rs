//! Deterministic PRNG (SplitMix64 seeding a xoshiro256**), no external crates.

#[derive(Clone, Debug)]
pub struct Rng {
    s: [u64; 4],
}

fn splitmix(x: &mut u64) -> u64 {
    *x = x.wrapping_add(0x9E37_79B9_7F4A_7C15);
    let mut z = *x;
    z = (z ^ (z >> 30)).wrapping_mul(0xBF58_476D_1CE4_E5B9);
    z = (z ^ (z >> 27)).wrapping_mul(0x94D0_49BB_1331_11EB);
    z ^ (z >> 31)
}

impl Rng {
    pub fn new(seed: u64) -> Self {
        let mut x = seed;
        let s = [
            splitmix(&mut x),
            splitmix(&mut x),
            splitmix(&mut x),
            splitmix(&mut x),
        ];
        Rng { s }
    }

    /// Derives an independent stream from a path of integers (seed, shard, case, ...).
    pub fn from_path(path: &[u64]) -> Self {
        let mut h: u64 = 0xcbf2_9ce4_8422_2325;
        for p in path {
            let mut x = h ^ p.wrapping_mul(0x1000_0000_01b3);
            h = splitmix(&mut x);
        }
        Rng::new(h)
    }

    pub fn next_u64(&mut self) -> u64 {
        let r = self.s[1].wrapping_mul(5).rotate_left(7).wrapping_mul(9);
        let t = self.s[1] << 17;
        self.s[2] ^= self.s[0];
        self.s[3] ^= self.s[1];
        self.s[1] ^= self.s[2];
        self.s[0] ^= self.s[3];
        self.s[2] ^= t;
        self.s[3] = self.s[3].rotate_left(45);
        r
    }

    /// Uniform in 0..n (n > 0).
    pub fn below(&mut self, n: usize) -> usize {
        debug_assert!(n > 0);
        (self.next_u64() % (n as u64)) as usize
    }

    /// Uniform in lo..=hi.
    pub fn range(&mut self, lo: usize, hi: usize) -> usize {
        lo + self.below(hi - lo + 1)
    }

    /// True with probability pct/100.
    pub fn pct(&mut self, pct: usize) -> bool {
        self.below(100) < pct
    }

    pub fn chance(&mut self, num: usize, den: usize) -> bool {
        self.below(den) < num
    }

    pub fn pick<'a, T>(&mut self, v: &'a [T]) -> &'a T {
        &v[self.below(v.len())]
    }

    pub fn shuffle<T>(&mut self, v: &mut [T]) {
        for i in (1..v.len()).rev() {
            let j = self.below(i + 1);
            v.swap(i, j);
        }
    }

    pub fn perm(&mut self, n: usize) -> Vec<usize> {
        let mut p: Vec<usize> = (0..n).collect();
        self.shuffle(&mut p);
        p
    }

    /// Picks an index according to integer weights.
    pub fn weighted(&mut self, w: &[usize]) -> usize {
        let tot: usize = w.iter().sum();
        let mut x = self.below(tot);
        for (i, wi) in w.iter().enumerate() {
            if x < *wi {
                return i;
            }
            x -= wi;
        }
        w.len() - 1
    }
}

/// FNV-1a style 64-bit hash over a byte stream, used for canonical case hashes.
#[derive(Clone, Copy)]
pub struct Hasher64(pub u64);

impl Default for Hasher64 {
    fn default() -> Self {
        Hasher64(0xcbf2_9ce4_8422_2325)
    }
}

impl Hasher64 {
    pub fn new() -> Self {
        Self::default()
    }
    pub fn byte(&mut self, b: u8) {
        self.0 ^= b as u64;
        self.0 = self.0.wrapping_mul(0x0000_0100_0000_01b3);
    }
    pub fn u64(&mut self, x: u64) {
        for i in 0..8 {
            self.byte((x >> (8 * i)) as u8);
        }
    }
    pub fn usize(&mut self, x: usize) {
        self.u64(x as u64)
    }
    pub fn bytes(&mut self, b: &[u8]) {
        self.usize(b.len());
        for x in b {
            self.byte(*x);
        }
    }
    pub fn str(&mut self, s: &str) {
        self.bytes(s.as_bytes())
    }
    pub fn finish(&self) -> u64 {
        // final avalanche
        let mut x = self.0;
        splitmix(&mut x)
    }
}
