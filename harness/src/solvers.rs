//! Uniform access to crustabri's static solvers (public API only).

use crate::present::{Built, HLabel};
use crate::refsem::Sem;
use crate::report::{catch, PanicInfo};
use crustabri::aa::{AAFramework, Argument};
use crustabri::encodings::{
    aux_var_constraints_encoder, exp_constraints_encoder, ConstraintsEncoder,
    DefaultStableConstraintsEncoder, HybridCompleteConstraintsEncoder,
};
use crustabri::sat::SatSolverFactoryFn;
use crustabri::solvers::{
    CompleteSemanticsSolver, CredulousAcceptanceComputer, GroundedSemanticsSolver,
    IdealSemanticsSolver, PreferredSemanticsSolver, SemiStableSemanticsSolver,
    SingleExtensionComputer, SkepticalAcceptanceComputer, StableSemanticsSolver,
    StageSemanticsSolver,
};
use serde_json::{json, Value};

#[derive(Clone, Copy, Debug, PartialEq, Eq, Hash, PartialOrd, Ord)]
pub enum Enc {
    /// No encoder choice (GR, ST).
    None,
    AuxCf,
    AuxAdm,
    AuxCo,
    ExpCf,
    ExpCo,
    Hybrid,
    Stable,
    /// The solver's constructor that takes no encoder (`new_with_sat_solver_factory`).
    Default,
    /// The solver's `new(af)` constructor (no factory, no encoder): the SAT boundary is not observed.
    New,
    /// `encodings::new_default_complete_constraints_encoder()`, the encoder the solvers' doc examples pass.
    HelperCo,
    /// `encodings::new_default_conflict_freeness_encoder()`.
    HelperCf,
}

impl Enc {
    pub fn name(self) -> &'static str {
        match self {
            Enc::None => "none",
            Enc::AuxCf => "aux_var-cf",
            Enc::AuxAdm => "aux_var-adm",
            Enc::AuxCo => "aux_var-co",
            Enc::ExpCf => "exp-cf",
            Enc::ExpCo => "exp-co",
            Enc::Hybrid => "hybrid",
            Enc::Stable => "stable",
            Enc::Default => "constructor-default",
            Enc::New => "constructor-new",
            Enc::HelperCo => "helper-default-complete",
            Enc::HelperCf => "helper-default-conflict-freeness",
        }
    }
    pub fn from_name(s: &str) -> Option<Enc> {
        [
            Enc::None,
            Enc::AuxCf,
            Enc::AuxAdm,
            Enc::AuxCo,
            Enc::ExpCf,
            Enc::ExpCo,
            Enc::Hybrid,
            Enc::Stable,
            Enc::Default,
            Enc::New,
            Enc::HelperCo,
            Enc::HelperCf,
        ]
        .into_iter()
        .find(|e| e.name() == s)
    }
    pub fn make<T: HLabel>(self) -> Box<dyn ConstraintsEncoder<T>> {
        match self {
            Enc::None | Enc::Default | Enc::New => panic!("harness: no encoder object for this configuration"),
            Enc::HelperCo => crustabri::encodings::new_default_complete_constraints_encoder(),
            Enc::HelperCf => crustabri::encodings::new_default_conflict_freeness_encoder(),
            Enc::AuxCf => Box::new(aux_var_constraints_encoder::new_for_conflict_freeness()),
            Enc::AuxAdm => Box::new(aux_var_constraints_encoder::new_for_admissibility()),
            Enc::AuxCo => Box::new(aux_var_constraints_encoder::new_for_complete_semantics()),
            Enc::ExpCf => Box::new(exp_constraints_encoder::new_for_conflict_freeness()),
            Enc::ExpCo => Box::new(exp_constraints_encoder::new_for_complete_semantics()),
            Enc::Hybrid => Box::<HybridCompleteConstraintsEncoder>::default(),
            Enc::Stable => Box::<DefaultStableConstraintsEncoder>::default(),
        }
    }
    /// The concrete encoder a configuration stands for with a given solver type
    /// (`Default` = what the constructor without encoder argument uses).
    pub fn resolved(self, ty: SolverType) -> Enc {
        match (self, ty) {
            (Enc::Default | Enc::New, SolverType::Stage) => Enc::AuxCf,
            (Enc::Default | Enc::New, SolverType::Stable) => Enc::Stable,
            (Enc::Default | Enc::New, SolverType::Grounded) => Enc::None,
            (Enc::Default | Enc::New, _) => Enc::AuxCo,
            (e, _) => e,
        }
    }

    /// The `--encoding` value that selects this encoder on the command line (None = flag absent only).
    pub fn cli_flag(self) -> Option<&'static str> {
        match self {
            Enc::AuxCf | Enc::AuxAdm | Enc::AuxCo => Some("aux_var"),
            Enc::ExpCf | Enc::ExpCo => Some("exp"),
            Enc::Hybrid => Some("hybrid"),
            _ => None,
        }
    }
}

#[derive(Clone, Copy, Debug, PartialEq, Eq, Hash, PartialOrd, Ord)]
pub enum QKind {
    SE,
    DC,
    DS,
}

impl QKind {
    pub fn name(self) -> &'static str {
        match self {
            QKind::SE => "SE",
            QKind::DC => "DC",
            QKind::DS => "DS",
        }
    }
    pub fn from_name(s: &str) -> Option<QKind> {
        match s {
            "SE" => Some(QKind::SE),
            "DC" => Some(QKind::DC),
            "DS" => Some(QKind::DS),
            _ => None,
        }
    }
}

/// The solver *type* that the library offers for (query kind, semantics): the name of the type
/// and whether the combination is served directly.  SE-CO and DS-CO are answered through the
/// grounded solver, DC-PR through the complete solver (as `crustabri solve` does).
#[derive(Clone, Copy, Debug, PartialEq, Eq, Hash, PartialOrd, Ord)]
pub enum SolverType {
    Grounded,
    Complete,
    Preferred,
    Stable,
    SemiStable,
    Stage,
    Ideal,
}

impl SolverType {
    pub fn name(self) -> &'static str {
        match self {
            SolverType::Grounded => "Grounded",
            SolverType::Complete => "Complete",
            SolverType::Preferred => "Preferred",
            SolverType::Stable => "Stable",
            SolverType::SemiStable => "SemiStable",
            SolverType::Stage => "Stage",
            SolverType::Ideal => "Ideal",
        }
    }
    /// Semantics whose extensions the type computes.
    pub fn sem(self) -> Sem {
        match self {
            SolverType::Grounded => Sem::GR,
            SolverType::Complete => Sem::CO,
            SolverType::Preferred => Sem::PR,
            SolverType::Stable => Sem::ST,
            SolverType::SemiStable => Sem::SST,
            SolverType::Stage => Sem::STG,
            SolverType::Ideal => Sem::ID,
        }
    }
    pub fn supports(self, k: QKind) -> bool {
        match self {
            SolverType::Complete => k == QKind::DC,
            SolverType::Preferred => k == QKind::SE || k == QKind::DS,
            _ => true,
        }
    }
    /// Encoders selectable for this type and query kind on the command line.
    pub fn encoders(self, k: QKind) -> &'static [Enc] {
        match self {
            SolverType::Grounded => &[Enc::None],
            SolverType::Stable => &[Enc::Stable],
            SolverType::Stage => &[Enc::AuxCf, Enc::ExpCf, Enc::Default, Enc::HelperCf],
            SolverType::Preferred if k == QKind::SE => {
                &[Enc::AuxAdm, Enc::AuxCo, Enc::ExpCo, Enc::Hybrid, Enc::Default, Enc::HelperCo]
            }
            _ => &[Enc::AuxCo, Enc::ExpCo, Enc::Hybrid, Enc::Default, Enc::HelperCo],
        }
    }
    /// `encoders` plus the `new(af)` constructor, which accepts no SAT-solver factory (so it is only
    /// used where the check judges answers, not the SAT boundary).
    pub fn configs(self, k: QKind) -> Vec<Enc> {
        let mut v = self.encoders(k).to_vec();
        if self != SolverType::Grounded {
            v.push(Enc::New);
        }
        v
    }
}

pub const ALL_SOLVER_TYPES: [SolverType; 7] = [
    SolverType::Grounded,
    SolverType::Complete,
    SolverType::Preferred,
    SolverType::Stable,
    SolverType::SemiStable,
    SolverType::Stage,
    SolverType::Ideal,
];

/// How `crustabri solve` serves problem (kind, sem): the solver type and the semantics whose
/// definition decides the answer.
pub fn cli_dispatch(k: QKind, sem: Sem) -> SolverType {
    match (k, sem) {
        (_, Sem::GR) => SolverType::Grounded,
        (QKind::SE, Sem::CO) | (QKind::DS, Sem::CO) => SolverType::Grounded,
        (QKind::DC, Sem::CO) | (QKind::DC, Sem::PR) => SolverType::Complete,
        (_, Sem::PR) => SolverType::Preferred,
        (_, Sem::ST) => SolverType::Stable,
        (_, Sem::SST) => SolverType::SemiStable,
        (_, Sem::STG) => SolverType::Stage,
        (_, Sem::ID) => SolverType::Ideal,
    }
}

pub enum StaticSolver<'a, T: HLabel> {
    GR(GroundedSemanticsSolver<'a, T>),
    CO(CompleteSemanticsSolver<'a, T>),
    PR(PreferredSemanticsSolver<'a, T>),
    ST(StableSemanticsSolver<'a, T>),
    SST(SemiStableSemanticsSolver<'a, T>),
    STG(StageSemanticsSolver<'a, T>),
    ID(IdealSemanticsSolver<'a, T>),
}

type Ext<'a, T> = Option<Vec<&'a Argument<T>>>;

impl<'a, T: HLabel> StaticSolver<'a, T> {
    pub fn new(
        af: &'a AAFramework<T>,
        ty: SolverType,
        enc: Enc,
        factory: Box<SatSolverFactoryFn>,
    ) -> Self {
        match ty {
            SolverType::Grounded => StaticSolver::GR(GroundedSemanticsSolver::new(af)),
            SolverType::Complete if enc == Enc::New => StaticSolver::CO(CompleteSemanticsSolver::new(af)),
            SolverType::Preferred if enc == Enc::New => StaticSolver::PR(PreferredSemanticsSolver::new(af)),
            SolverType::Stable if enc == Enc::New => StaticSolver::ST(StableSemanticsSolver::new(af)),
            SolverType::SemiStable if enc == Enc::New => StaticSolver::SST(SemiStableSemanticsSolver::new(af)),
            SolverType::Stage if enc == Enc::New => StaticSolver::STG(StageSemanticsSolver::new(af)),
            SolverType::Ideal if enc == Enc::New => StaticSolver::ID(IdealSemanticsSolver::new(af)),
            SolverType::Complete if enc == Enc::Default => StaticSolver::CO(CompleteSemanticsSolver::new_with_sat_solver_factory(af, factory)),
            SolverType::Complete => StaticSolver::CO(
                CompleteSemanticsSolver::new_with_sat_solver_factory_and_constraints_encoder(
                    af,
                    factory,
                    enc.make(),
                ),
            ),
            SolverType::Preferred if enc == Enc::Default => StaticSolver::PR(PreferredSemanticsSolver::new_with_sat_solver_factory(af, factory)),
            SolverType::Preferred => StaticSolver::PR(
                PreferredSemanticsSolver::new_with_sat_solver_factory_and_constraints_encoder(
                    af,
                    factory,
                    enc.make(),
                ),
            ),
            SolverType::Stable => {
                StaticSolver::ST(StableSemanticsSolver::new_with_sat_solver_factory(af, factory))
            }
            SolverType::SemiStable if enc == Enc::Default => StaticSolver::SST(SemiStableSemanticsSolver::new_with_sat_solver_factory(af, factory)),
            SolverType::SemiStable => StaticSolver::SST(
                SemiStableSemanticsSolver::new_with_sat_solver_factory_and_constraints_encoder(
                    af,
                    factory,
                    enc.make(),
                ),
            ),
            SolverType::Stage if enc == Enc::Default => StaticSolver::STG(StageSemanticsSolver::new_with_sat_solver_factory(af, factory)),
            SolverType::Stage => StaticSolver::STG(
                StageSemanticsSolver::new_with_sat_solver_factory_and_constraints_encoder(
                    af,
                    factory,
                    enc.make(),
                ),
            ),
            SolverType::Ideal if enc == Enc::Default => StaticSolver::ID(IdealSemanticsSolver::new_with_sat_solver_factory(af, factory)),
            SolverType::Ideal => StaticSolver::ID(
                IdealSemanticsSolver::new_with_sat_solver_factory_and_constraints_encoder(
                    af,
                    factory,
                    enc.make(),
                ),
            ),
        }
    }

    pub fn se(&mut self) -> Ext<'_, T> {
        match self {
            StaticSolver::GR(s) => s.compute_one_extension(),
            StaticSolver::CO(_) => panic!("harness: SE on complete solver"),
            StaticSolver::PR(s) => s.compute_one_extension(),
            StaticSolver::ST(s) => s.compute_one_extension(),
            StaticSolver::SST(s) => s.compute_one_extension(),
            StaticSolver::STG(s) => s.compute_one_extension(),
            StaticSolver::ID(s) => s.compute_one_extension(),
        }
    }

    pub fn dc(&mut self, args: &[&T], cert: bool) -> (bool, Ext<'_, T>) {
        macro_rules! go {
            ($s:expr) => {
                if cert {
                    $s.are_credulously_accepted_with_certificate(args)
                } else {
                    ($s.are_credulously_accepted(args), None)
                }
            };
        }
        match self {
            StaticSolver::GR(s) => go!(s),
            StaticSolver::CO(s) => go!(s),
            StaticSolver::PR(_) => panic!("harness: DC on preferred solver"),
            StaticSolver::ST(s) => go!(s),
            StaticSolver::SST(s) => go!(s),
            StaticSolver::STG(s) => go!(s),
            StaticSolver::ID(s) => go!(s),
        }
    }

    pub fn ds(&mut self, args: &[&T], cert: bool) -> (bool, Ext<'_, T>) {
        macro_rules! go {
            ($s:expr) => {
                if cert {
                    $s.are_skeptically_accepted_with_certificate(args)
                } else {
                    ($s.are_skeptically_accepted(args), None)
                }
            };
        }
        match self {
            StaticSolver::GR(s) => go!(s),
            StaticSolver::CO(_) => panic!("harness: DS on complete solver"),
            StaticSolver::PR(s) => go!(s),
            StaticSolver::ST(s) => go!(s),
            StaticSolver::SST(s) => go!(s),
            StaticSolver::STG(s) => go!(s),
            StaticSolver::ID(s) => go!(s),
        }
    }
}

/// A returned argument set mapped to abstract indices, with the membership defects found.
#[derive(Clone, Debug, PartialEq, Eq)]
pub struct SetOut {
    pub set: Vec<usize>,
    /// Problems with the members themselves: foreign label, wrong id, listed twice.
    pub member_errors: Vec<String>,
}

pub fn map_set<T: HLabel>(built: &Built<T>, v: &[&Argument<T>]) -> SetOut {
    let mut set = Vec::with_capacity(v.len());
    let mut errs = Vec::new();
    for a in v {
        match built.index_of.get(a.label()) {
            None => errs.push(format!("member {} is not an argument of the framework", a)),
            Some(i) => {
                match built.af.argument_set().get_argument(a.label()) {
                    Ok(own) => {
                        if own.id() != a.id() {
                            errs.push(format!(
                                "member {} has id {} but the framework's argument has id {}",
                                a,
                                a.id(),
                                own.id()
                            ));
                        }
                    }
                    Err(_) => errs.push(format!("member {} unknown to the argument set", a)),
                }
                if set.contains(i) {
                    errs.push(format!("member {} listed twice", a));
                } else {
                    set.push(*i);
                }
            }
        }
    }
    set.sort_unstable();
    SetOut {
        set,
        member_errors: errs,
    }
}

#[derive(Clone, Debug, PartialEq, Eq)]
pub enum QOut {
    Ext(Option<SetOut>),
    Status(bool, Option<SetOut>),
}

impl QOut {
    pub fn to_json(&self) -> Value {
        match self {
            QOut::Ext(None) => json!({"ext": null}),
            QOut::Ext(Some(s)) => json!({"ext": s.set, "member_errors": s.member_errors}),
            QOut::Status(b, None) => json!({"status": b}),
            QOut::Status(b, Some(s)) => {
                json!({"status": b, "certificate": s.set, "member_errors": s.member_errors})
            }
        }
    }
    pub fn status(&self) -> Option<bool> {
        match self {
            QOut::Status(b, _) => Some(*b),
            _ => None,
        }
    }
}

#[derive(Clone, Debug, PartialEq, Eq)]
pub struct Query {
    pub kind: QKind,
    pub args: Vec<usize>,
    pub cert: bool,
}

impl Query {
    pub fn to_json(&self) -> Value {
        json!({"kind": self.kind.name(), "args": self.args, "cert": self.cert})
    }
}

/// Issues one query on an existing solver object.
pub fn ask<T: HLabel>(
    built: &Built<T>,
    solver: &mut StaticSolver<'_, T>,
    q: &Query,
) -> Result<QOut, PanicInfo> {
    let labels: Vec<&T> = q.args.iter().map(|i| &built.labels[*i]).collect();
    catch(|| match q.kind {
        QKind::SE => QOut::Ext(solver.se().map(|v| map_set(built, &v))),
        QKind::DC => {
            let (b, c) = solver.dc(&labels, q.cert);
            QOut::Status(b, c.map(|v| map_set(built, &v)))
        }
        QKind::DS => {
            let (b, c) = solver.ds(&labels, q.cert);
            QOut::Status(b, c.map(|v| map_set(built, &v)))
        }
    })
}

/// Builds a fresh solver object and issues one query.
pub fn ask_fresh<T: HLabel>(
    built: &Built<T>,
    ty: SolverType,
    enc: Enc,
    factory: Box<SatSolverFactoryFn>,
    q: &Query,
) -> Result<QOut, PanicInfo> {
    let r = catch(|| StaticSolver::new(&built.af, ty, enc, factory));
    match r {
        Ok(mut s) => ask(built, &mut s, q),
        Err(p) => Err(p),
    }
}
