//! Independent SAT-level reference for connected mid-size graphs.
//!
//! Uses the `cadical` crate directly (never `crustabri::sat`) with textbook labelling encodings
//! written from the definitions: in_i, out_i (out_i <-> some attacker is in), r_i <-> in_i or out_i.

use crate::refsem::{Abs, Sem};
use std::collections::BTreeSet;

pub const PR_ENUM_BOUND: usize = 2000;
pub const RANGE_ENUM_BOUND: usize = 400;

#[derive(Clone, Copy, PartialEq, Eq, Debug)]
pub enum Base {
    Cf,
    Adm,
    Co,
    St,
}

pub struct RefSat {
    pub n: usize,
    attackers: Vec<Vec<usize>>,
    attacked: Vec<Vec<usize>>,
    pr_enum: Option<Option<Vec<Vec<usize>>>>,
    sst_ranges: Option<Option<Vec<Vec<bool>>>>,
    stg_ranges: Option<Option<Vec<Vec<bool>>>>,
    grounded: Vec<bool>,
    pub sat_calls: u64,
}

type Cad = cadical::Solver;

impl RefSat {
    pub fn new(g: &Abs) -> RefSat {
        let n = g.n;
        let mut attackers = vec![BTreeSet::new(); n];
        let mut attacked = vec![BTreeSet::new(); n];
        for (a, b) in g.att.iter() {
            attackers[*b].insert(*a);
            attacked[*a].insert(*b);
        }
        let attackers: Vec<Vec<usize>> = attackers.into_iter().map(|s| s.into_iter().collect()).collect();
        let attacked: Vec<Vec<usize>> = attacked.into_iter().map(|s| s.into_iter().collect()).collect();
        let mut r = RefSat {
            n,
            attackers,
            attacked,
            pr_enum: None,
            sst_ranges: None,
            stg_ranges: None,
            grounded: vec![false; n],
            sat_calls: 0,
        };
        r.grounded = r.compute_grounded();
        r
    }

    fn vin(&self, i: usize) -> i32 {
        (i + 1) as i32
    }
    fn vout(&self, i: usize) -> i32 {
        (self.n + i + 1) as i32
    }
    fn vr(&self, i: usize) -> i32 {
        (2 * self.n + i + 1) as i32
    }
    fn first_free(&self) -> i32 {
        (3 * self.n + 1) as i32
    }

    fn compute_grounded(&self) -> Vec<bool> {
        let n = self.n;
        let mut inn = vec![false; n];
        let mut out = vec![false; n];
        loop {
            let mut changed = false;
            for a in 0..n {
                if !inn[a] && !out[a] && self.attackers[a].iter().all(|b| out[*b]) {
                    inn[a] = true;
                    changed = true;
                    for c in self.attacked[a].iter() {
                        if !out[*c] {
                            out[*c] = true;
                        }
                    }
                }
            }
            if !changed {
                break;
            }
        }
        inn
    }

    pub fn grounded_set(&self) -> Vec<usize> {
        (0..self.n).filter(|i| self.grounded[*i]).collect()
    }

    fn solver(&self, base: Base) -> Cad {
        let mut s: Cad = cadical::Solver::new();
        let n = self.n;
        for i in 0..n {
            // out_i <-> OR in_j
            let mut c: Vec<i32> = vec![-self.vout(i)];
            for j in self.attackers[i].iter() {
                c.push(self.vin(*j));
                s.add_clause([self.vout(i), -self.vin(*j)]);
            }
            s.add_clause(c);
            // r_i <-> in_i or out_i
            s.add_clause([-self.vr(i), self.vin(i), self.vout(i)]);
            s.add_clause([self.vr(i), -self.vin(i)]);
            s.add_clause([self.vr(i), -self.vout(i)]);
            // conflict-freeness
            s.add_clause([-self.vin(i), -self.vout(i)]);
            match base {
                Base::Cf => {}
                Base::Adm | Base::Co => {
                    for j in self.attackers[i].iter() {
                        s.add_clause([-self.vin(i), self.vout(*j)]);
                    }
                    if base == Base::Co {
                        let mut c: Vec<i32> = vec![self.vin(i)];
                        for j in self.attackers[i].iter() {
                            c.push(-self.vout(*j));
                        }
                        s.add_clause(c);
                    }
                }
                Base::St => {
                    s.add_clause([self.vin(i), self.vout(i)]);
                }
            }
        }
        s
    }

    fn model_set(&self, s: &Cad) -> Vec<usize> {
        (0..self.n)
            .filter(|i| s.value(self.vin(*i)) == Some(true))
            .collect()
    }

    fn model_range(&self, s: &Cad) -> Vec<bool> {
        (0..self.n)
            .map(|i| s.value(self.vr(i)) == Some(true))
            .collect()
    }

    fn solve(&mut self, s: &mut Cad, assumptions: &[i32]) -> bool {
        self.sat_calls += 1;
        match s.solve_with(assumptions.iter().copied()) {
            Some(b) => b,
            None => panic!("harness: reference CaDiCaL returned unknown"),
        }
    }

    /// A set of the base family containing at least one of `some_of` (if given) and none of `none_of`.
    pub fn find(
        &mut self,
        base: Base,
        some_of: Option<&[usize]>,
        none_of: &[usize],
        exact_range: Option<&[bool]>,
    ) -> Option<Vec<usize>> {
        let mut s = self.solver(base);
        if let Some(args) = some_of {
            let c: Vec<i32> = args.iter().map(|a| self.vin(*a)).collect();
            s.add_clause(c);
        }
        let mut ass: Vec<i32> = none_of.iter().map(|a| -self.vin(*a)).collect();
        if let Some(r) = exact_range {
            for (i, b) in r.iter().enumerate() {
                ass.push(if *b { self.vr(i) } else { -self.vr(i) });
            }
        }
        if self.solve(&mut s, &ass) {
            Some(self.model_set(&s))
        } else {
            None
        }
    }

    // ---- polynomial checks on concrete sets ----
    fn flags(&self, set: &[usize]) -> (Vec<bool>, Vec<bool>) {
        let mut inn = vec![false; self.n];
        for a in set {
            inn[*a] = true;
        }
        let mut out = vec![false; self.n];
        for a in set {
            for c in self.attacked[*a].iter() {
                out[*c] = true;
            }
        }
        (inn, out)
    }
    pub fn is_cf(&self, set: &[usize]) -> bool {
        let (inn, out) = self.flags(set);
        (0..self.n).all(|i| !(inn[i] && out[i]))
    }
    pub fn is_adm(&self, set: &[usize]) -> bool {
        let (inn, out) = self.flags(set);
        (0..self.n).all(|i| !(inn[i] && out[i]))
            && set
                .iter()
                .all(|a| self.attackers[*a].iter().all(|b| out[*b]))
    }
    pub fn is_co(&self, set: &[usize]) -> bool {
        if !self.is_adm(set) {
            return false;
        }
        let (inn, out) = self.flags(set);
        (0..self.n).all(|a| inn[a] || !self.attackers[a].iter().all(|b| out[*b]))
    }
    pub fn is_st(&self, set: &[usize]) -> bool {
        let (inn, out) = self.flags(set);
        (0..self.n).all(|i| !(inn[i] && out[i])) && (0..self.n).all(|i| inn[i] || out[i])
    }
    pub fn range_of(&self, set: &[usize]) -> Vec<bool> {
        let (inn, out) = self.flags(set);
        (0..self.n).map(|i| inn[i] || out[i]).collect()
    }

    /// No admissible strict superset exists.
    fn pr_maximal(&mut self, set: &[usize]) -> bool {
        let mut s = self.solver(Base::Adm);
        let (inn, _) = self.flags(set);
        let others: Vec<i32> = (0..self.n).filter(|i| !inn[*i]).map(|i| self.vin(i)).collect();
        s.add_clause(others);
        let ass: Vec<i32> = set.iter().map(|a| self.vin(*a)).collect();
        !self.solve(&mut s, &ass)
    }

    /// No set of the base family has a strictly larger range.
    fn range_maximal(&mut self, base: Base, set: &[usize]) -> bool {
        let r = self.range_of(set);
        let mut s = self.solver(base);
        let others: Vec<i32> = (0..self.n).filter(|i| !r[*i]).map(|i| self.vr(i)).collect();
        s.add_clause(others);
        let ass: Vec<i32> = (0..self.n).filter(|i| r[*i]).map(|i| self.vr(i)).collect();
        !self.solve(&mut s, &ass)
    }

    /// Bounded enumeration of the preferred extensions.
    pub fn preferred(&mut self) -> Option<&Vec<Vec<usize>>> {
        if self.pr_enum.is_none() {
            let r = self.enumerate_preferred();
            self.pr_enum = Some(r);
        }
        self.pr_enum.as_ref().unwrap().as_ref()
    }

    fn enumerate_preferred(&mut self) -> Option<Vec<Vec<usize>>> {
        let mut s = self.solver(Base::Co);
        let mut found: Vec<Vec<usize>> = Vec::new();
        let mut next_act = self.first_free();
        loop {
            if !self.solve(&mut s, &[]) {
                break;
            }
            let mut cur = self.model_set(&s);
            loop {
                let (inn, _) = self.flags(&cur);
                let act = next_act;
                next_act += 1;
                let mut c: Vec<i32> = vec![-act];
                c.extend((0..self.n).filter(|i| !inn[*i]).map(|i| self.vin(i)));
                s.add_clause(c);
                let mut ass: Vec<i32> = cur.iter().map(|a| self.vin(*a)).collect();
                ass.push(act);
                let sat = self.solve(&mut s, &ass);
                if sat {
                    cur = self.model_set(&s);
                }
                s.add_clause([-act]);
                if !sat {
                    break;
                }
            }
            let (inn, _) = self.flags(&cur);
            let block: Vec<i32> = (0..self.n).filter(|i| !inn[*i]).map(|i| self.vin(i)).collect();
            found.push(cur);
            if found.len() > PR_ENUM_BOUND {
                return None;
            }
            if block.is_empty() {
                break;
            }
            s.add_clause(block);
        }
        Some(found)
    }

    fn max_ranges(&mut self, base: Base) -> Option<&Vec<Vec<bool>>> {
        let need = match base {
            Base::Co => self.sst_ranges.is_none(),
            Base::Cf => self.stg_ranges.is_none(),
            _ => panic!("harness: max_ranges base"),
        };
        if need {
            let r = self.enumerate_max_ranges(base);
            match base {
                Base::Co => self.sst_ranges = Some(r),
                _ => self.stg_ranges = Some(r),
            }
        }
        match base {
            Base::Co => self.sst_ranges.as_ref().unwrap().as_ref(),
            _ => self.stg_ranges.as_ref().unwrap().as_ref(),
        }
    }

    fn enumerate_max_ranges(&mut self, base: Base) -> Option<Vec<Vec<bool>>> {
        let mut s = self.solver(base);
        let mut found: Vec<Vec<bool>> = Vec::new();
        let mut next_act = self.first_free();
        loop {
            if !self.solve(&mut s, &[]) {
                break;
            }
            let mut cur = self.model_range(&s);
            loop {
                let act = next_act;
                next_act += 1;
                let mut c: Vec<i32> = vec![-act];
                c.extend((0..self.n).filter(|i| !cur[*i]).map(|i| self.vr(i)));
                s.add_clause(c);
                let mut ass: Vec<i32> = (0..self.n).filter(|i| cur[*i]).map(|i| self.vr(i)).collect();
                ass.push(act);
                let sat = self.solve(&mut s, &ass);
                if sat {
                    cur = self.model_range(&s);
                }
                s.add_clause([-act]);
                if !sat {
                    break;
                }
            }
            let block: Vec<i32> = (0..self.n).filter(|i| !cur[*i]).map(|i| self.vr(i)).collect();
            found.push(cur);
            if found.len() > RANGE_ENUM_BOUND {
                return None;
            }
            if block.is_empty() {
                break;
            }
            s.add_clause(block);
        }
        Some(found)
    }

    pub fn ideal(&mut self) -> Option<Vec<usize>> {
        let n = self.n;
        let prs = self.preferred()?.clone();
        let mut inn = vec![true; n];
        for p in prs.iter() {
            let mut f = vec![false; n];
            for a in p {
                f[*a] = true;
            }
            for i in 0..n {
                inn[i] &= f[i];
            }
        }
        loop {
            let mut changed = false;
            for a in 0..n {
                if !inn[a] {
                    continue;
                }
                // every attacker of a must be attacked by the set
                let ok = self.attackers[a]
                    .iter()
                    .all(|b| self.attackers[*b].iter().any(|c| inn[*c]));
                if !ok {
                    inn[a] = false;
                    changed = true;
                }
            }
            if !changed {
                break;
            }
        }
        Some((0..n).filter(|i| inn[*i]).collect())
    }

    pub fn has_ext(&mut self, sem: Sem) -> Option<bool> {
        match sem {
            Sem::ST => Some(self.find(Base::St, None, &[], None).is_some()),
            _ => Some(true),
        }
    }

    pub fn n_ext_lower_bound(&mut self, sem: Sem) -> Option<u64> {
        match sem {
            Sem::GR | Sem::ID => Some(1),
            Sem::PR => self.preferred().map(|v| v.len() as u64),
            Sem::SST => self.max_ranges(Base::Co).map(|v| v.len() as u64),
            Sem::STG => self.max_ranges(Base::Cf).map(|v| v.len() as u64),
            _ => None,
        }
    }

    pub fn cred(&mut self, sem: Sem, args: &[usize]) -> Option<bool> {
        match sem {
            Sem::GR => Some(args.iter().any(|a| self.grounded[*a])),
            Sem::CO | Sem::PR => Some(self.find(Base::Co, Some(args), &[], None).is_some()),
            Sem::ST => Some(self.find(Base::St, Some(args), &[], None).is_some()),
            Sem::SST | Sem::STG => {
                let base = if sem == Sem::SST { Base::Co } else { Base::Cf };
                let ranges = self.max_ranges(base)?.clone();
                for r in ranges.iter() {
                    if self.find(base, Some(args), &[], Some(r)).is_some() {
                        return Some(true);
                    }
                }
                Some(false)
            }
            Sem::ID => {
                let id = self.ideal()?;
                Some(args.iter().any(|a| id.contains(a)))
            }
        }
    }

    pub fn skep(&mut self, sem: Sem, args: &[usize]) -> Option<bool> {
        match sem {
            Sem::GR | Sem::CO => Some(args.iter().any(|a| self.grounded[*a])),
            Sem::ST => Some(self.find(Base::St, None, args, None).is_none()),
            Sem::PR => {
                let prs = self.preferred()?;
                Some(prs.iter().all(|p| args.iter().any(|a| p.contains(a))))
            }
            Sem::SST | Sem::STG => {
                let base = if sem == Sem::SST { Base::Co } else { Base::Cf };
                let ranges = self.max_ranges(base)?.clone();
                for r in ranges.iter() {
                    if self.find(base, None, args, Some(r)).is_some() {
                        return Some(false);
                    }
                }
                Some(true)
            }
            Sem::ID => {
                let id = self.ideal()?;
                Some(args.iter().any(|a| id.contains(a)))
            }
        }
    }

    pub fn is_ext(&mut self, sem: Sem, set: &[usize]) -> Option<bool> {
        match sem {
            Sem::GR => Some(self.grounded_set() == set),
            Sem::CO => Some(self.is_co(set)),
            Sem::ST => Some(self.is_st(set)),
            Sem::PR => Some(self.is_adm(set) && self.pr_maximal(set)),
            Sem::SST => Some(self.is_co(set) && self.range_maximal(Base::Co, set)),
            Sem::STG => Some(self.is_cf(set) && self.range_maximal(Base::Cf, set)),
            Sem::ID => {
                let id = self.ideal()?;
                Some(id == set)
            }
        }
    }
}

#[cfg(test)]
mod tests {
    use super::*;
    use crate::refsem::{mask_of, RefSem};
    use crate::rng::Rng;

    /// RefSat must agree with the brute-force oracle on small graphs (harness self-test).
    #[test]
    fn refsat_agrees_with_refsem() {
        let mut rng = Rng::new(7);
        for _ in 0..300 {
            let n = rng.range(1, 7);
            let mut att = Vec::new();
            for a in 0..n {
                for b in 0..n {
                    if rng.pct(25) {
                        att.push((a, b));
                    }
                }
            }
            let g = Abs::new(n, att);
            let r = RefSem::new(&g).unwrap();
            let mut s = RefSat::new(&g);
            for sem in crate::refsem::ALL_SEMS {
                for a in 0..n {
                    assert_eq!(s.cred(sem, &[a]).unwrap(), r.cred(sem, 1 << a), "cred {:?} {:?} {}", g, sem, a);
                    assert_eq!(s.skep(sem, &[a]).unwrap(), r.skep(sem, 1 << a), "skep {:?} {:?} {}", g, sem, a);
                }
                for m in 0..(1u32 << n) {
                    let set = crate::refsem::set_of(m);
                    assert_eq!(s.is_ext(sem, &set).unwrap(), r.is_ext(sem, mask_of(&set)), "is_ext {:?} {:?} {:?}", g, sem, set);
                }
            }
            assert_eq!(s.preferred().unwrap().len(), r.pr.len());
        }
    }
}
