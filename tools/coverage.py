#!/usr/bin/env python3
"""Measures which lines of the files a property is anchored in were executed by its check's workload.

  tools/coverage.py <ID> [--tier quick] [--shards K] [--seed N]    -> build/coverage/<ID>.json + summary on stdout
  tools/coverage.py --all

The harness and the two /repo binaries are rebuilt with `-Cinstrument-coverage` (nightly toolchain, whose
llvm-tools match the profile format) into build/target-cov; K of the 16 shards of the workload are run with the
instrumented binaries; profiles are merged and exported with llvm-cov.  This is *evidence about reach*, not a
verdict: a line that is never executed by the workload is a line the monitors said nothing about.
"""
import json
import os
import shutil
import subprocess
import sys
import time

ROOT = os.path.dirname(os.path.dirname(os.path.abspath(__file__)))
BUILD = os.path.join(ROOT, "build")
TCOV = os.path.join(BUILD, "target-cov")
REPO = "/repo"
sys.path.insert(0, ROOT)


def sysroot_bin(tool):
    sr = subprocess.run(["rustc", "+nightly", "--print", "sysroot"], stdout=subprocess.PIPE, text=True).stdout.strip()
    return os.path.join(sr, "lib", "rustlib", "x86_64-unknown-linux-gnu", "bin", tool)


def env_cov():
    e = dict(os.environ)
    e["CARGO_NET_OFFLINE"] = "true"
    e["RUST_BACKTRACE"] = "0"
    e["RUSTFLAGS"] = "-Cinstrument-coverage"
    return e


def build():
    os.makedirs(TCOV, exist_ok=True)
    cmds = [
        ["cargo", "+nightly", "build", "--release", "--offline", "--manifest-path",
         os.path.join(ROOT, "harness", "Cargo.toml"), "--target-dir", os.path.join(TCOV, "harness")],
        ["cargo", "+nightly", "build", "--release", "--offline", "--bins", "--manifest-path",
         os.path.join(REPO, "Cargo.toml"), "--target-dir", os.path.join(TCOV, "repo")],
    ]
    for c in cmds:
        p = subprocess.run(c, env=env_cov(), stdout=subprocess.PIPE, stderr=subprocess.STDOUT, text=True)
        if p.returncode != 0:
            sys.stdout.write(p.stdout[-4000:])
            sys.exit("coverage build failed")


def anchors():
    out = {}
    for line in open(os.path.join(ROOT, "properties.jsonl")):
        d = json.loads(line)
        out[d["id"]] = d["anchors"]["files"]
    return out


def run(prop, tier, nshards_run, seed):
    from checkmeta import PROPS
    meta = PROPS[prop]
    hb = os.path.join(TCOV, "harness", "release")
    rb = os.path.join(TCOV, "repo", "release")
    work = os.path.join(BUILD, "coverage", prop)
    shutil.rmtree(work, ignore_errors=True)
    os.makedirs(os.path.join(work, "prof"))
    os.makedirs(os.path.join(work, "out"))
    e = dict(os.environ)
    e["RUST_BACKTRACE"] = "0"
    e["LLVM_PROFILE_FILE"] = os.path.join(work, "prof", "p-%p-%m.profraw")
    budget = meta.get("budget_s", {}).get(tier, 240 if tier == "quick" else 1500)
    procs = []
    t0 = time.time()
    total = 16
    step = max(1, total // nshards_run)
    for i in list(range(0, total, step))[:nshards_run]:
        cmd = [os.path.join(hb, "cverif"), "run", prop, "--tier", tier, "--seed", str(seed),
               "--shard", "%d/%d" % (i, total), "--out", os.path.join(work, "out"),
               "--replays", os.path.join(work, "out"), "--bin-dir", hb, "--repo-bin-dir", rb,
               "--budget-s", str(budget * 2), "--corpus", os.path.join(ROOT, "corpus")]
        procs.append(subprocess.Popen(cmd, env=e, stdout=subprocess.DEVNULL, stderr=subprocess.DEVNULL))
    for p in procs:
        try:
            p.wait(timeout=budget * 4 + 300)
        except subprocess.TimeoutExpired:
            p.kill()
    wall = time.time() - t0
    raws = [os.path.join(work, "prof", f) for f in os.listdir(os.path.join(work, "prof"))]
    lst = os.path.join(work, "raws.txt")
    with open(lst, "w") as f:
        f.write("\n".join(raws) + "\n")
    prof = os.path.join(work, "merged.profdata")
    subprocess.run([sysroot_bin("llvm-profdata"), "merge", "-sparse", "--failure-mode=all", "-f", lst, "-o", prof], check=False,
                   stdout=subprocess.DEVNULL, stderr=subprocess.DEVNULL)
    shutil.rmtree(os.path.join(work, "prof"), ignore_errors=True)
    objs = [os.path.join(hb, "cverif"), os.path.join(hb, "msat"), os.path.join(rb, "crustabri"),
            os.path.join(rb, "crustabri_iccma23")]
    cmd = [sysroot_bin("llvm-cov"), "export", "-format=text", "-instr-profile", prof, objs[0]]
    for o in objs[1:]:
        cmd += ["-object", o]
    cmd += ["--ignore-filename-regex", r"(\.cargo|rustc|/verif/)"]
    p = subprocess.run(cmd, stdout=subprocess.PIPE, stderr=subprocess.PIPE, text=True)
    if p.returncode != 0:
        sys.exit("llvm-cov failed: " + p.stderr[-2000:])
    data = json.loads(p.stdout)["data"][0]
    files = {}
    for f in data["files"]:
        name = f["filename"]
        if not name.startswith(REPO + "/src/"):
            continue
        rel = name[len(REPO) + 1:]
        # line -> covered?  from segments: [line, col, count, has_count, is_region_entry, is_gap]
        lines = {}
        segs = f["segments"]
        for k, s in enumerate(segs):
            line, col, count, has_count, _entry, gap = s[:6]
            if not has_count or gap:
                continue
            end_line = segs[k + 1][0] if k + 1 < len(segs) else line
            for ln in range(line, max(line, end_line) + (0 if k + 1 < len(segs) and segs[k + 1][1] == 1 else 1)):
                lines[ln] = max(lines.get(ln, 0), count)
        files[rel] = {"summary": f["summary"]["lines"], "regions": f["summary"]["regions"], "lines": lines}
    funcs = {}
    for fn in data["functions"]:
        fl = fn["filenames"][0]
        if not fl.startswith(REPO + "/src/"):
            continue
        rel = fl[len(REPO) + 1:]
        funcs.setdefault(rel, {})
        start = fn["regions"][0][0] if fn["regions"] else 0
        key = "%s:%d" % (rel, start)
        funcs[rel][key] = max(funcs[rel].get(key, 0), fn["count"])
    return files, funcs, wall


def uncovered_ranges(lines, src_path):
    """Uncovered executable lines, skipping test modules (everything from `#[cfg(test)]` on)."""
    try:
        src = open(src_path).read().splitlines()
    except OSError:
        src = []
    cut = len(src) + 1
    for i, l in enumerate(src):
        if l.strip() == "#[cfg(test)]":
            cut = i + 1
            break
    un = sorted(ln for ln, c in lines.items() if c == 0 and ln < cut)
    cov = sum(1 for ln, c in lines.items() if c > 0 and ln < cut)
    ranges = []
    for ln in un:
        if ranges and ln == ranges[-1][1] + 1:
            ranges[-1][1] = ln
        else:
            ranges.append([ln, ln])
    return cov, len(un), ranges, src


def report(prop, tier="quick", nshards_run=4, seed=1, verbose=True):
    files, funcs, wall = run(prop, tier, nshards_run, seed)
    anc = anchors()[prop]
    out = {"property": prop, "tier": tier, "shards_run": nshards_run, "seed": seed, "wall_s": round(wall, 1), "anchor_files": {}}
    tot_c = tot_u = 0
    for rel in anc:
        if rel not in files:
            out["anchor_files"][rel] = {"note": "not in the coverage map (no instrumented code reached or file has no code)"}
            continue
        cov, un, ranges, src = uncovered_ranges(files[rel]["lines"], os.path.join(REPO, rel))
        tot_c += cov
        tot_u += un
        out["anchor_files"][rel] = {"lines_covered": cov, "lines_uncovered": un,
                                    "uncovered_ranges": ranges}
        if verbose:
            print("%-70s %4d / %4d lines" % (rel, cov, cov + un))
            for a, b in ranges:
                for ln in range(a, b + 1):
                    if ln - 1 < len(src):
                        print("      %5d | %s" % (ln, src[ln - 1][:110]))
    # every /repo/src file (not only the anchors), for the union over all checks
    out["all_files"] = {}
    for rel, f in files.items():
        cov, un, ranges, _ = uncovered_ranges(f["lines"], os.path.join(REPO, rel))
        out["all_files"][rel] = {"covered": sorted(ln for ln, c in f["lines"].items() if c > 0),
                                 "uncovered": sorted(ln for ln, c in f["lines"].items() if c == 0)}
    out["total_non_test_lines_covered"] = tot_c
    out["total_non_test_lines_uncovered"] = tot_u
    os.makedirs(os.path.join(BUILD, "coverage"), exist_ok=True)
    with open(os.path.join(BUILD, "coverage", prop + ".json"), "w") as f:
        json.dump(out, f, indent=1)
    print("COVERAGE %s tier=%s shards=%d: %d of %d non-test executable lines of the anchor files reached (%.1f%%), %.0fs"
          % (prop, tier, nshards_run, tot_c, tot_c + tot_u, 100.0 * tot_c / max(1, tot_c + tot_u), wall))
    return out


def union():
    """Lines of /repo/src that no check's workload reached (from the stored per-check maps)."""
    cdir = os.path.join(BUILD, "coverage")
    cov, seen = {}, {}
    for f in sorted(os.listdir(cdir)):
        if not f.endswith(".json"):
            continue
        d = json.load(open(os.path.join(cdir, f)))
        for rel, m in d.get("all_files", {}).items():
            cov.setdefault(rel, set()).update(m["covered"])
            seen.setdefault(rel, set()).update(m["covered"])
            seen[rel].update(m["uncovered"])
    tot_c = tot_u = 0
    for rel in sorted(seen):
        lines = {ln: (1 if ln in cov[rel] else 0) for ln in seen[rel]}
        c, u, ranges, src = uncovered_ranges(lines, os.path.join(REPO, rel))
        tot_c += c
        tot_u += u
        print("%-70s %4d / %4d lines" % (rel, c, c + u))
        for a, b in ranges:
            for ln in range(a, b + 1):
                if ln - 1 < len(src):
                    print("      %5d | %s" % (ln, src[ln - 1][:110]))
    print("UNION: %d of %d non-test executable lines of /repo/src reached by at least one check (%.1f%%)"
          % (tot_c, tot_c + tot_u, 100.0 * tot_c / max(1, tot_c + tot_u)))


def main():
    a = sys.argv[1:]
    if a and a[0] == "--union":
        union()
        return
    tier, k, seed = "quick", 4, 1
    ids = []
    i = 0
    verbose = True
    while i < len(a):
        if a[i] == "--tier":
            tier = a[i + 1]; i += 2
        elif a[i] == "--shards":
            k = int(a[i + 1]); i += 2
        elif a[i] == "--seed":
            seed = int(a[i + 1]); i += 2
        elif a[i] == "--all":
            ids = sorted(anchors()); verbose = False; i += 1
        elif a[i] == "--brief":
            verbose = False; i += 1
        else:
            ids.append(a[i]); i += 1
    if not ids:
        print(__doc__)
        sys.exit(2)
    build()
    for p in ids:
        report(p, tier, k, seed, verbose)


if __name__ == "__main__":
    main()
