#!/usr/bin/env python3
"""Runs every check at several seeds (quick tier) on the current tree and prints, per check, the
minimum over the seeds of evaluations, distinct_nontrivial and of each counter the thresholds use,
so that thresholds can be set with a 4x margin (DESIGN.md section 8)."""
import json, os, subprocess, sys
ROOT = os.path.dirname(os.path.dirname(os.path.abspath(__file__)))
sys.path.insert(0, ROOT)
from checkmeta import PROPS
argv = [a for a in sys.argv[1:] if not a.startswith("--")]
WRITE = "--write" in sys.argv[1:]
ONLY = [a[len("--only="):].split(",") for a in sys.argv[1:] if a.startswith("--only=")]
seeds = [int(s) for s in (argv or ["1", "2", "3"])]
ev = os.path.join(ROOT, "build", "calib-evidence")
out = {}
for pid in sorted(PROPS):
    if ONLY and pid not in ONLY[0]:
        continue
    mins = {}
    for s in seeds:
        env = dict(os.environ, VERIF_SEED=str(s), VERIF_EVIDENCE_DIR=ev)
        r = subprocess.run([os.path.join(ROOT, "check"), pid, "quick"], cwd=ROOT, env=env, stdout=subprocess.PIPE, text=True)
        e = json.load(open(os.path.join(ev, pid + ".json")))
        c = e["coverage"]
        vals = {"evaluations": c["evaluations"], "distinct_nontrivial": c["distinct_nontrivial"], "_exit": r.returncode, "_wall": e["wall_s"]}
        for k in PROPS[pid]["thresholds"]["quick"].get("counters", {}):
            if k.endswith("/*"):
                vals[k] = sum(v for kk, v in c["counters"].items() if kk.startswith(k[:-1]))
            else:
                vals[k] = c["counters"].get(k, 0)
        for k, v in vals.items():
            if k == "_exit":
                mins[k] = max(mins.get(k, 0), v)
            elif k == "_wall":
                mins[k] = max(mins.get(k, 0), v)
            else:
                mins[k] = min(mins.get(k, v), v)
    out[pid] = mins
    print(pid, json.dumps(mins), flush=True)
json.dump(out, open(os.path.join(ROOT, "build", "calibration.json"), "w"), indent=1)
if WRITE:
    # thresholds = a quarter of the minimum observed over the seeds (at least 1); only for checks
    # that exited 0 at every seed
    tp = os.path.join(ROOT, "thresholds_quick.json")
    th = json.load(open(tp))
    for pid, mins in out.items():
        if mins.get("_exit", 0) != 0:
            print("NOT WRITTEN (exit %s at some seed): %s" % (mins.get("_exit"), pid))
            continue
        th[pid] = {"evaluations": max(1, mins["evaluations"] // 4), "distinct_nontrivial": max(1, mins["distinct_nontrivial"] // 4),
                   "counters": {k: max(1, v // 4) for k, v in mins.items() if k not in ("evaluations", "distinct_nontrivial", "_exit", "_wall")}}
    json.dump(th, open(tp, "w"), indent=1, sort_keys=True)
    print("thresholds_quick.json written")
