#!/usr/bin/env python3
"""Runs checks against a seeded change in a *scratch copy* (so that several changes can be screened in
parallel and /repo stays untouched): /tmp/mut/<name>/repo = `git archive HEAD` of /repo + the patch,
/tmp/mut/<name>/verif = copy of /verif whose harness depends on that copy.  The scratch directory is
removed afterwards.  Screening only: what is recorded in seeded/<id>/meta.json for the labelled
properties is re-run on /repo itself with tools/mutant_run.py.

  tools/mutant_scratch.py <patch.diff> [--tier quick] [--seed N] [--base COMMIT] [ID ...]
"""
import json
import os
import shutil
import subprocess
import sys

ROOT = os.path.dirname(os.path.dirname(os.path.abspath(__file__)))
ALL = ["C%02d" % i for i in range(1, 20)]


def sh(cmd, **kw):
    return subprocess.run(cmd, stdout=subprocess.PIPE, stderr=subprocess.STDOUT, text=True, **kw)


def main():
    a = sys.argv[1:]
    if not a:
        print(__doc__)
        sys.exit(2)
    patch = os.path.abspath(a[0])
    tier, seed, base, ids = "quick", "1", "HEAD", []
    i = 1
    while i < len(a):
        if a[i] == "--tier":
            tier = a[i + 1]; i += 2
        elif a[i] == "--seed":
            seed = a[i + 1]; i += 2
        elif a[i] == "--base":
            base = a[i + 1]; i += 2
        else:
            ids.append(a[i]); i += 1
    ids = ids or ALL
    name = os.path.basename(os.path.dirname(patch)) or "m"
    top = os.path.join("/tmp/mut", "%s-%d" % (name, os.getpid()))
    shutil.rmtree(top, ignore_errors=True)
    repo = os.path.join(top, "repo")
    verif = os.path.join(top, "verif")
    os.makedirs(repo)
    try:
        r = subprocess.run("git -C /repo archive %s | tar x -C %s" % (base, repo), shell=True)
        r = sh(["git", "apply", "--whitespace=nowarn", patch], cwd=repo)
        if r.returncode != 0:
            r = sh(["patch", "-p1", "-i", patch], cwd=repo)
            if r.returncode != 0:
                print("patch does not apply:\n" + r.stdout)
                sys.exit(2)
        shutil.copytree(ROOT, verif, ignore=shutil.ignore_patterns("build", ".git", "seeded", "evidence", "__pycache__", "target"))
        ct = os.path.join(verif, "harness", "Cargo.toml")
        s = open(ct).read().replace('path = "/repo"', 'path = "%s"' % repo)
        open(ct, "w").write(s)
        env = dict(os.environ)
        env["VERIF_SEED"] = seed
        env["VERIF_REPO"] = repo
        env["VERIF_EVIDENCE_DIR"] = os.path.join(verif, "build", "mutant-evidence")
        results = {}
        for pid in ids:
            r = sh([os.path.join(verif, "check"), pid, tier], cwd=verif, env=env)
            sigs = []
            for l in r.stdout.splitlines():
                if l.startswith("VIOLATION"):
                    for tok in l.split():
                        if tok.startswith("signature="):
                            sigs.append(tok[len("signature="):])
            incon = [l for l in r.stdout.splitlines() if l.startswith("INCONCLUSIVE") or l.startswith("HARNESS-ERROR")]
            results[pid] = {"exit": r.returncode, "signatures": sigs[:6], "n_signatures": len(sigs), "notes": incon[:2]}
            print("%s %s exit=%d %s %s" % (name, pid, r.returncode, " ".join(sigs[:3]), ("| " + incon[0][:160]) if incon and not sigs else ""), flush=True)
        print(json.dumps({"patch": patch, "tier": tier, "seed": seed, "scratch": True, "results": results}))
    finally:
        shutil.rmtree(top, ignore_errors=True)


if __name__ == "__main__":
    main()
