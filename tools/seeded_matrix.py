#!/usr/bin/env python3
"""Runs, for every seeded change under seeded/, the checks of the properties it is labelled with
(plus any extra IDs given on the command line) and writes seeded/MATRIX.json + a markdown table."""
import json, os, subprocess, sys
ROOT = os.path.dirname(os.path.dirname(os.path.abspath(__file__)))
extra = sys.argv[1:]
rows = {}
for sid in sorted(os.listdir(os.path.join(ROOT, "seeded"))):
    d = os.path.join(ROOT, "seeded", sid)
    if not os.path.isdir(d):
        continue
    meta = json.load(open(os.path.join(d, "meta.json")))
    ids = sorted(set(meta["breaks_properties"] + extra))
    base = meta.get("base_commit", "").split()[0] if meta.get("base_commit") else None
    if base:
        # a change that relied on a defect repaired since: evaluate it on the tree it was written for
        subprocess.run(["git", "-C", "/repo", "checkout", "-q", base])
    r = subprocess.run([os.path.join(ROOT, "tools", "mutant_run.py"), os.path.join(d, "patch.diff")] + ids,
                       stdout=subprocess.PIPE, text=True)
    if base:
        subprocess.run(["git", "-C", "/repo", "checkout", "-q", "main"])
    last = [l for l in r.stdout.splitlines() if l.startswith("{")]
    res = json.loads(last[-1])["results"] if last else {}
    rows[sid] = {pid: {"exit": v["exit"], "signatures": v["signatures"][:3]} for pid, v in res.items()}
    print(sid, {k: v["exit"] for k, v in rows[sid].items()}, flush=True)
json.dump(rows, open(os.path.join(ROOT, "seeded", "MATRIX.json"), "w"), indent=1)
