#!/usr/bin/env python3
"""Runs, for every seeded change under seeded/, the quick checks of the properties it is labelled with
(plus any extra IDs given on the command line) and writes seeded/MATRIX.json; each change's meta.json gets
its `detection_quick_seed1` entry refreshed.

  tools/seeded_matrix.py [--lanes K] [--only S73,S74,...] [--repo] [ID ...]

Default: every change is evaluated in its own scratch copy (/repo's HEAD or the change's base_commit + the
patch, with a copy of /verif whose harness depends on that copy; tools/mutant_scratch.py), K changes at a
time, so /repo itself is never modified.  --repo applies each patch to /repo itself instead
(tools/mutant_run.py, one at a time, /repo restored after each).
"""
import json
import os
import subprocess
import sys
from concurrent.futures import ThreadPoolExecutor

ROOT = os.path.dirname(os.path.dirname(os.path.abspath(__file__)))


def evaluate(sid, extra, on_repo):
    d = os.path.join(ROOT, "seeded", sid)
    meta = json.load(open(os.path.join(d, "meta.json")))
    ids = sorted(set(meta["breaks_properties"] + extra))
    base = meta.get("base_commit", "").split()[0] if meta.get("base_commit") else None
    if on_repo:
        if base:
            subprocess.run(["git", "-C", "/repo", "checkout", "-q", base])
        cmd = [os.path.join(ROOT, "tools", "mutant_run.py"), os.path.join(d, "patch.diff")] + ids
    else:
        cmd = [os.path.join(ROOT, "tools", "mutant_scratch.py"), os.path.join(d, "patch.diff")]
        if base:
            cmd += ["--base", base]
        cmd += ids
    r = subprocess.run(cmd, stdout=subprocess.PIPE, stderr=subprocess.STDOUT, text=True)
    if on_repo and base:
        subprocess.run(["git", "-C", "/repo", "checkout", "-q", "main"])
    last = [l for l in r.stdout.splitlines() if l.startswith("{")]
    res = json.loads(last[-1])["results"] if last else {}
    row = {pid: {"exit": v["exit"], "signatures": v["signatures"][:3], "notes": v.get("notes", [])[:1]} for pid, v in res.items()}
    det = {}
    for pid, v in row.items():
        if v["exit"] == 1:
            det[pid] = "fires (%s)" % ", ".join(s.split("/", 1)[1] if "/" in s else s for s in v["signatures"][:2])
        elif v["exit"] == 0:
            det[pid] = "silent"
        else:
            det[pid] = "exit %s: %s" % (v["exit"], (v["notes"] or ["inconclusive / harness error"])[0][:160])
    meta["detection_quick_seed1"] = det
    meta["ran"] = ("tools/seeded_matrix.py: quick tier, VERIF_SEED=1, " +
                   ("patch applied to /repo itself and reverted (tools/mutant_run.py)" if on_repo else
                    "in a scratch copy of /repo's HEAD%s + the patch (tools/mutant_scratch.py)" % (" at base_commit" if base else "")))
    json.dump(meta, open(os.path.join(d, "meta.json"), "w"), indent=1)
    print(sid, {k: v["exit"] for k, v in row.items()}, flush=True)
    return sid, row


def main():
    a = sys.argv[1:]
    lanes, only, on_repo, extra = 3, None, False, []
    i = 0
    while i < len(a):
        if a[i] == "--lanes":
            lanes = int(a[i + 1]); i += 2
        elif a[i] == "--only":
            only = a[i + 1].split(","); i += 2
        elif a[i] == "--repo":
            on_repo = True; lanes = 1; i += 1
        else:
            extra.append(a[i]); i += 1
    sids = [s for s in sorted(os.listdir(os.path.join(ROOT, "seeded"))) if os.path.isdir(os.path.join(ROOT, "seeded", s))]
    if only:
        sids = [s for s in sids if any(s.startswith(o + "-") or s == o for o in only)]
    mpath = os.path.join(ROOT, "seeded", "MATRIX.json")
    rows = json.load(open(mpath)) if os.path.exists(mpath) else {}
    with ThreadPoolExecutor(max_workers=lanes) as ex:
        for sid, row in ex.map(lambda s: evaluate(s, extra, on_repo), sids):
            rows[sid] = row
            json.dump(rows, open(mpath, "w"), indent=1, sort_keys=True)


if __name__ == "__main__":
    main()
