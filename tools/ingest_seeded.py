#!/usr/bin/env python3
"""Copies a confirmed sub-agent change from its scratch worktree into seeded/<id>/ and writes meta.json.
  tools/ingest_seeded.py <worktree> <k> <id> <P1,P2,...> "<needs_to_manifest>" [origin text]"""
import json, os, shutil, sys
ROOT = os.path.dirname(os.path.dirname(os.path.abspath(__file__)))
wt, k, sid, props, needs = sys.argv[1:6]
origin = sys.argv[6] if len(sys.argv) > 6 else ("third round: independent sub-agent given only the property text, a history-free scratch copy of the "
    "repository and the list of earlier sites/triggers to avoid; asked for changes needing something specific to manifest")
src = os.path.join(wt, "out", k)
conf = open(os.path.join(src, "confirm.txt")).read().strip().splitlines()
if conf[-1] != "CONFIRMED":
    sys.exit("not confirmed: " + " | ".join(conf[-2:]))
dst = os.path.join(ROOT, "seeded", sid)
os.makedirs(dst, exist_ok=True)
for f in ("patch.diff", "demo.rs", "demo.sh", "notes.md"):
    if os.path.exists(os.path.join(src, f)):
        shutil.copy(os.path.join(src, f), os.path.join(dst, f))
meta = {"id": sid, "breaks_properties": props.split(","), "origin": origin, "needs_to_manifest": needs,
        "confirmed": {"how": "tools/confirm_seeded.sh in the scratch copy: demo passes on the clean tree, fails with the patch; cargo test --workspace --no-fail-fast --offline passes with the patch (401 tests + 68 doc tests)",
                      "result": "CONFIRMED", "detail": conf[-2]},
        "ran": "tools/mutant_scratch.py (screening, scratch copy) and tools/mutant_run.py on /repo (quick tier, VERIF_SEED=1)",
        "detection_quick_seed1": {}}
json.dump(meta, open(os.path.join(dst, "meta.json"), "w"), indent=1)
print("ingested", sid)
