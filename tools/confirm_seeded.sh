#!/bin/bash
# Confirms a seeded change in its scratch worktree: demo passes on the clean tree, fails with the
# patch; the repository's own test suite passes with the patch.   usage: confirm_seeded.sh <worktree> <k>
set -u
WT=$1; K=$2; OUT=$WT/out/$K
cd "$WT" || exit 2
git checkout -q -- . ; rm -f tests/demo.rs
export CARGO_NET_OFFLINE=true RUST_BACKTRACE=0
run_demo() {
  if [ -f "$OUT/demo.rs" ]; then
    cp "$OUT/demo.rs" tests/demo.rs
    timeout 900 cargo test --offline --test demo >"$OUT/$1.log" 2>&1; rc=$?
    rm -f tests/demo.rs
  elif [ -f "$OUT/demo.sh" ]; then
    timeout 900 bash "$OUT/demo.sh" >"$OUT/$1.log" 2>&1; rc=$?
  else
    echo "no demo"; rc=99
  fi
  return $rc
}
run_demo demo-clean; CLEAN=$?
git apply --whitespace=nowarn "$OUT/patch.diff" || { echo "PATCH-DOES-NOT-APPLY"; exit 2; }
run_demo demo-patched; PATCHED=$?
timeout 1800 cargo test --workspace --no-fail-fast --offline >"$OUT/suite-patched.log" 2>&1; SUITE=$?
NPASS=$(grep -E '^test result' "$OUT/suite-patched.log" | awk '{s+=$4} END {print s}')
NFAIL=$(grep -E '^test result' "$OUT/suite-patched.log" | awk '{s+=$6} END {print s}')
git checkout -q -- . ; rm -f tests/demo.rs
echo "demo_clean_rc=$CLEAN demo_patched_rc=$PATCHED suite_rc=$SUITE passed=$NPASS failed=$NFAIL"
if [ $CLEAN -eq 0 ] && [ $PATCHED -ne 0 ] && [ $SUITE -eq 0 ]; then echo CONFIRMED; else echo NOT-CONFIRMED; fi
