#!/usr/bin/env python3
"""Applies a seeded change to /repo, runs the given checks (quick tier by default), restores /repo.

  tools/mutant_run.py <patch.diff> [--tier quick|thorough] [--seed N] [ID ...]

Prints one line per check: ID exit-status first-violation-signature; evidence goes to build/mutant-evidence.
"""
import json
import os
import subprocess
import sys

ROOT = os.path.dirname(os.path.dirname(os.path.abspath(__file__)))
REPO = "/repo"
ALL = ["C%02d" % i for i in range(1, 20)]


def sh(cmd, **kw):
    return subprocess.run(cmd, stdout=subprocess.PIPE, stderr=subprocess.STDOUT, text=True, **kw)


def main():
    a = sys.argv[1:]
    if not a:
        print(__doc__)
        sys.exit(2)
    patch = os.path.abspath(a[0])
    tier = "quick"
    seed = "1"
    ids = []
    i = 1
    while i < len(a):
        if a[i] == "--tier":
            tier = a[i + 1]
            i += 2
        elif a[i] == "--seed":
            seed = a[i + 1]
            i += 2
        else:
            ids.append(a[i])
            i += 1
    ids = ids or ALL
    st = sh(["git", "-C", REPO, "status", "--porcelain"]).stdout.strip()
    if st:
        print("refusing: /repo is not clean:\n" + st)
        sys.exit(2)
    r = sh(["git", "-C", REPO, "apply", "--whitespace=nowarn", patch])
    if r.returncode != 0:
        print("patch does not apply:\n" + r.stdout)
        sys.exit(2)
    results = {}
    try:
        env = dict(os.environ)
        env["VERIF_SEED"] = seed
        env["VERIF_EVIDENCE_DIR"] = os.path.join(ROOT, "build", "mutant-evidence")
        for pid in ids:
            r = sh([os.path.join(ROOT, "check"), pid, tier], cwd=ROOT, env=env)
            viol = [l for l in r.stdout.splitlines() if l.startswith("VIOLATION")]
            sigs = []
            for l in viol:
                for tok in l.split():
                    if tok.startswith("signature="):
                        sigs.append(tok[len("signature="):])
            incon = [l for l in r.stdout.splitlines() if l.startswith("INCONCLUSIVE") or l.startswith("HARNESS-ERROR")]
            results[pid] = {"exit": r.returncode, "signatures": sigs[:6], "n_signatures": len(sigs), "notes": incon[:2]}
            print("%s exit=%d %s %s" % (pid, r.returncode, " ".join(sigs[:3]), ("| " + incon[0][:160]) if incon and not sigs else ""), flush=True)
    finally:
        sh(["git", "-C", REPO, "checkout", "--", "."])
        sh(["git", "-C", REPO, "clean", "-fdq", "--", "src", "tests"])
    st = sh(["git", "-C", REPO, "status", "--porcelain"]).stdout.strip()
    if st:
        print("WARNING: /repo not clean after restore:\n" + st)
    print(json.dumps({"patch": patch, "tier": tier, "seed": seed, "results": results}))


if __name__ == "__main__":
    main()
