#!/usr/bin/env python3
"""Writes MANIFEST.json from checkmeta.py (kept in one place so the two cannot drift)."""
import json
from checkmeta import PROPS, MANIFEST_TEXT, NOT_APPLICABLE

checks = []
for pid in sorted(PROPS):
    m = MANIFEST_TEXT[pid]
    checks.append({
        "property_id": pid,
        "quick_cmd": "./check %s quick" % pid,
        "thorough_cmd": "./check %s thorough" % pid,
        "evidence_file": "/verif/evidence/%s.json" % pid,
        "replay_cmd_template": "./check --replay {path}",
        "engine": "cverif",
        "level_claimed": {"category": PROPS[pid]["level"], "text": m["level_text"], "design_ref": m["design_ref"]},
        "level_note": m["level_note"],
        "technique": m["technique"],
    })
manifest = {
    "version": 1,
    "setup_cmd": "./check --setup",
    "hooks": {
        "guard": "crustabri_verif",
        "enable": "none needed: every monitor attaches through public traits, factories and process boundaries (RUSTFLAGS=\"--cfg crustabri_verif\" is reserved; no source commit uses it)",
        "baseline_off_cmd": "cd /repo && cargo test --workspace --no-fail-fast --offline",
        "source_commits": [],
        "add_only": True,
    },
    "engines": [{
        "name": "cverif",
        "path": "/verif/harness",
        "serves_properties": sorted(PROPS),
        "kind_free_text": "Rust harness running the real crustabri code under generated/hostile workloads with reference-model monitors (brute-force semantics, independent SAT reference, DPLL), a SAT-boundary monitor injected through SatSolverFactoryFn, a monitor external solver (msat), CLI transcripts; python driver ./check shards, aggregates, matches known findings and writes evidence",
    }],
    "checks": checks,
    "notes": "Runtime monitoring: every verdict is 'held on the executions observed'. exit 2 = harness error or too little observed (never a VIOLATION line). See DESIGN.md.",
    "not_applicable": NOT_APPLICABLE,
}
with open("MANIFEST.json", "w") as f:
    json.dump(manifest, f, indent=1)
    f.write("\n")
print("MANIFEST.json written with %d checks, %d not applicable" % (len(checks), len(NOT_APPLICABLE)))
