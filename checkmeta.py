"""Per-property metadata used by ./check: level, non-triviality rule, assumptions, minimum
observation thresholds (a run that observed too little is INCONCLUSIVE, never a pass)."""

ORACLE_ASSUMPTIONS = [
    "the brute-force reference semantics in harness/src/refsem.rs (self-checked on every graph: GR least complete, PR within CO, ID complete and within every PR, ST non-empty => ST=SST=STG, maximal admissible = maximal complete)",
    "for graphs beyond 14 arguments: exactness of composition over weakly connected components of at most 12 arguments, or the independent CaDiCaL-based reference encodings in harness/src/refsat.rs (cross-checked against the brute-force oracle by the harness's own unit test)",
    "universal claims are sampled: small-scope exhaustive (all digraphs on <= 3 arguments in quick, <= 4 in thorough) plus generated families; nothing is claimed for inputs that were not generated",
]

PROPS = {
    "C01": {
        "level": "exploration",
        "rule": "cases = (graph, presentation, SE problem, encoder); graphs from families all(n<=3|4), Erdos-Renyi n<=9, unions of small components with interleaved labels, lattice/dense shapes, duplicate attack lines, 20-300 argument unions and connected graphs; presentations: both readers, API, new_with_labels, histories with removals (sparse ids). A case is non-trivial when the framework has >= 2 extensions under the semantics, or >= 2 components, or sparse ids, or no extension at all; distinct = distinct canonical hash of (sorted attacks, n, presentation kind, problem, encoder).",
        "assumptions": ORACLE_ASSUMPTIONS,
        "thresholds": {
            "quick": {"evaluations": 20000, "distinct_nontrivial": 5000,
                      "counters": {"queries/SE-ST": 500, "queries/SE-ID": 500, "no_extension_correctly_reported": 20,
                                   "oracle/refsat": 5, "oracle/brute-force-by-composition": 5}},
            "thorough": {"evaluations": 400000, "distinct_nontrivial": 100000,
                         "counters": {"no_extension_correctly_reported": 500, "oracle/refsat": 100}},
        },
    },
    "C02": {
        "level": "exploration",
        "rule": "cases = (graph, presentation, DC problem, encoder, argument), every argument of small graphs and 12 sampled arguments of big ones. Non-trivial: the argument is in some but not all extensions, or the framework has no extension under the semantics; distinct by canonical hash of (graph, presentation kind, problem, encoder, argument).",
        "assumptions": ORACLE_ASSUMPTIONS,
        "thresholds": {
            "quick": {"evaluations": 50000, "distinct_nontrivial": 5000,
                      "counters": {"queries/DC-PR": 1000, "queries/DC-STG": 1000, "oracle/refsat": 5}},
            "thorough": {"evaluations": 1000000, "distinct_nontrivial": 100000, "counters": {}},
        },
    },
    "C03": {
        "level": "exploration",
        "rule": "cases = (graph, presentation, DS problem, encoder, argument), every argument of small graphs and 12 sampled arguments of big ones. Non-trivial: the argument is in some but not all extensions, or the framework has no extension under the semantics; distinct by canonical hash of (graph, presentation kind, problem, encoder, argument).",
        "assumptions": ORACLE_ASSUMPTIONS,
        "thresholds": {
            "quick": {"evaluations": 50000, "distinct_nontrivial": 5000,
                      "counters": {"queries/DS-PR": 1000, "queries/DS-CO": 500, "oracle/refsat": 5}},
            "thorough": {"evaluations": 1000000, "distinct_nontrivial": 100000, "counters": {}},
        },
    },
    "C04": {
        "level": "exploration",
        "rule": "cases = (graph, presentation, DC/DS problem, encoder, argument) through the *_with_certificate entry points. Non-trivial: a certificate was due (YES-credulous / NO-skeptical) and the framework has >= 2 components or sparse ids, so the certificate had to be completed on untouched components / mapped back by label; distinct by canonical hash. Command-line part: every argument of 20 (quick) / 300 (thorough) frameworks per family x every DC/DS problem with -c x every --encoding value; the printed certificate is judged. A query whose SAT calls span more than 40 s of wall-clock time is abandoned (counted, not an evaluation).",
        "assumptions": ORACLE_ASSUMPTIONS,
        "thresholds": {
            "quick": {"evaluations": 50000, "distinct_nontrivial": 5000,
                      "counters": {"certificates_checked": 10000}},
            "thorough": {"evaluations": 1000000, "distinct_nontrivial": 100000,
                         "counters": {"certificates_checked": 200000}},
        },
    },
    "C07": {
        "level": "exploration",
        "rule": "cases = (graph, DC/DS problem of each static solver type, encoder, list of 1-3 arguments with repetitions, with/without certificate); all lists on graphs of <= 4 arguments, sampled lists biased to different components otherwise. Non-trivial: the list is not a single argument; distinct by canonical hash of (graph, problem, encoder, list). Every list class (same component, different components, mutually attacking, contains a self-attacker, duplicates) must be reached. Also frameworks of 66-140 arguments (unions of small components that all have stable extensions) and lists with two arguments 8/16/32/64/128 positions apart.",
        "assumptions": ORACLE_ASSUMPTIONS,
        "thresholds": {
            "quick": {"evaluations": 100000, "distinct_nontrivial": 20000,
                      "counters": {"lists/same-component": 1000, "lists/args-in-different-components": 1000,
                                   "lists/mutually-attacking": 1000, "lists/contains-self-attacker": 1000,
                                   "lists/duplicates": 1000}},
            "thorough": {"evaluations": 2000000, "distinct_nontrivial": 400000,
                         "counters": {"lists/args-in-different-components": 20000}},
        },
    },
}

_STATIC_NOTE = ("Trusted: the harness oracles (brute-force semantics with self-checks; composition over components; "
                "independent CaDiCaL reference encodings for connected graphs of 20-300 arguments), the generators' "
                "coverage, and that the SAT-boundary monitor (a pass-through SatSolver) does not perturb the solvers. "
                "Held only on the executions observed; nothing is claimed for frameworks that were not generated.")

MANIFEST_TEXT = {
    "C01": {
        "level_text": "Reference-model monitoring of every SingleExtensionComputer (all CLI-selectable encoders, both label types, five presentations incl. sparse ids and duplicate attacks): each returned set is checked for membership in the extension family computed by an independent brute-force oracle (exhaustively for all digraphs on <= 3 (quick) / <= 4 (thorough) arguments, sampled beyond, exact by composition up to 300 arguments, SAT-reference maximality checks on connected 20-300 argument graphs); 'no extension' only when the oracle has none. Exploration is the right level: the property is a universal statement over inputs, decided per execution by an exact oracle.",
        "design_ref": "DESIGN.md section 5, C01", "level_note": _STATIC_NOTE,
        "technique": "runtime monitoring: reference-model oracle (brute-force semantics) on generated frameworks",
    },
    "C02": {
        "level_text": "Every credulous acceptance query (all solver types and selectable encoders, DC-PR through the complete solver as the CLI does) on every argument of generated frameworks is compared online with the brute-force / composed / SAT-reference oracle.",
        "design_ref": "DESIGN.md section 5, C02/C03", "level_note": _STATIC_NOTE,
        "technique": "runtime monitoring: reference-model oracle on generated frameworks",
    },
    "C03": {
        "level_text": "Every skeptical acceptance query (all solver types and selectable encoders, DS-CO through the grounded solver as the CLI does) on every argument of generated frameworks is compared online with the oracle, including the empty-stable-family convention.",
        "design_ref": "DESIGN.md section 5, C02/C03", "level_note": _STATIC_NOTE,
        "technique": "runtime monitoring: reference-model oracle on generated frameworks",
    },
    "C04": {
        "level_text": "All *_with_certificate entry points: presence exactly when promised, argument (non-)membership, membership of the whole certificate in the oracle's extension family (so completion on untouched components is judged), members' label+id belong to the queried framework and are listed once; weighted to multi-component and sparse-id frameworks.",
        "design_ref": "DESIGN.md section 5, C04", "level_note": _STATIC_NOTE,
        "technique": "runtime monitoring: certificate checker against reference semantics",
    },
    "C07": {
        "level_text": "Multi-argument (1-3, with repetitions) credulous/skeptical queries of every static solver type, with and without certificate, judged against the oracle's disjunction semantics; all list classes (same/different components, mutually attacking, self-attacker, duplicates) must be reached or the run is inconclusive.",
        "design_ref": "DESIGN.md section 5, C07", "level_note": _STATIC_NOTE,
        "technique": "runtime monitoring: reference-model oracle (disjunction semantics) on generated argument lists",
    },
}

NOT_APPLICABLE = [
    {"property_id": p, "reason": "check under construction in this session (runtime-monitoring design in DESIGN.md section 5); not yet registered"}
    for p in ["C05", "C06", "C08", "C09", "C10", "C11", "C12", "C13", "C14", "C15", "C16", "C17", "C18", "C19"]
]

_DYN_ASSUMPTIONS = [
    "the shadow set model of harness/src/props/dynamic.rs implements the specified update semantics (valid applied, redundant no-op, invalid rejected without effect)",
    "brute-force reference semantics on the shadow framework (universe of at most 11 live arguments, so exact)",
    "histories are sampled from eight shapes over 4-8 labels; nothing is claimed for histories that were not generated",
]

PROPS["C08"] = {
    "level": "exploration",
    "rule": "cases = histories (5-40 operations, up to 400 in thorough) of valid updates interleaved with queries for the six dynamic solver types (both assumption-on-attacks variants with reservation factors 1, 1.25, 1.5, 2, 3, 7.3; the recompute wrapper over each static semantics); every query is judged against brute-force semantics of the shadow framework at that moment. A history is non-trivial when at least one of its queries concerned an argument that is credulously but not skeptically accepted, or a framework without extension; distinct = distinct hash of the whole history + solver configuration. Coverage counters (cache hits, queries right after updates, re-encodings, selector retirements, re-added labels, removal of attackers, PR query then new argument) must all be non-zero.",
    "assumptions": _DYN_ASSUMPTIONS,
    "thresholds": {
        "quick": {"evaluations": 300000, "distinct_nontrivial": 4000,
                  "counters": {"coverage/queries-with-zero-sat-calls": 1000, "coverage/queries-right-after-update": 1000,
                               "coverage/re-encodings": 500, "coverage/selector-retirements": 500,
                               "coverage/re-added-label": 500, "coverage/removed-argument-with-outgoing-attacks": 300,
                               "coverage/pr-query-then-new-argument": 300, "certificates_checked": 5000,
                               "histories/DynamicPreferred": 1000, "histories/DynamicCompleteAttacks": 500}},
        "thorough": {"evaluations": 8000000, "distinct_nontrivial": 100000,
                     "counters": {"coverage/re-encodings": 10000, "coverage/selector-retirements": 10000}},
    },
}
PROPS["C09"] = {
    "level": "fault_enumeration",
    "rule": "cases = C08 histories in which each update is replaced with probability 0.15 by a redundant one (existing argument / attack) or an invalid one (remove unknown or already removed argument / attack, attack from/to unknown argument), at any position; the update call's own result is checked (Err exactly for invalid ones) and every later answer is judged against the shadow framework without the rejected/redundant operation. Non-trivial: the history contains at least one faulty update and a query on a credulously-but-not-skeptically accepted argument (or a framework without extension); distinct = hash of history + configuration.",
    "assumptions": _DYN_ASSUMPTIONS,
    "thresholds": {
        "quick": {"evaluations": 300000, "distinct_nontrivial": 3000,
                  "counters": {"faulty_updates/invalid/-arg": 1000, "faulty_updates/invalid/+att": 1000,
                               "faulty_updates/invalid/-att": 1000, "faulty_updates/redundant/+arg": 1000,
                               "faulty_updates/redundant/+att": 500, "histories/DynamicPreferred": 1000}},
        "thorough": {"evaluations": 8000000, "distinct_nontrivial": 80000, "counters": {}},
    },
}
_DYN_NOTE = ("Trusted: the shadow model and brute-force oracle of the harness; the SAT-boundary monitor (pass-through) used for call "
             "counting and the per-query call cap. Only single-argument queries exist for dynamic solvers. Held on the histories generated.")
MANIFEST_TEXT["C08"] = {
    "level_text": "History checking of the real dynamic solver objects against an executable sequential model: after every update the shadow framework is advanced, every query's status and certificate is compared with brute-force semantics of the current shadow framework; a per-query SAT-call cap turns runaway loops into verdicts on logical steps; violating histories are minimised before being stored.",
    "design_ref": "DESIGN.md section 5, C08", "level_note": _DYN_NOTE,
    "technique": "runtime monitoring: history + executable shadow model, reference semantics per step",
}
MANIFEST_TEXT["C09"] = {
    "level_text": "Fault enumeration over update positions: redundant and invalid updates are injected at random positions (incl. first and last, several per history) of C08-style histories for all six solver types; the result of the faulty call and all later answers are judged against the shadow model that ignores the faulty operation.",
    "design_ref": "DESIGN.md section 5, C09", "level_note": _DYN_NOTE,
    "technique": "runtime monitoring: fault injection into update histories, shadow model + reference semantics",
}
NOT_APPLICABLE[:] = [e for e in NOT_APPLICABLE if e["property_id"] not in ("C08", "C09")]

PROPS["C12"] = {
    "level": "exploration",
    "rule": "cases = update histories (5-60 operations, 2000 in thorough) over 3-6 labels plus one never-declared label, for AAFramework<usize>, AAFramework<String> (empty start or new_with_labels start) and LabelSet; weighted to self-attacks, repeated operations, removal of arguments carrying self + in + out attacks, re-insertion. After EVERY operation all public observables (counts, iter_attacks, per-argument iter_attacks_from/to as multisets, argument iteration with ids, get_argument, has_argument_with_id, is_empty, max id >= live ids) are compared with a set model; invalid/redundant operations must leave the snapshot unchanged. Non-trivial: the history contains at least one removal; distinct = hash of the operation list. Further start state: an ArgumentSet with a history of its own (withdrawals anywhere in the order) wrapped by new_with_argument_set; wide-hub shape (34-90 arguments, in/out lists of 16-64+ entries, single attacks withdrawn and put back); grounded_extension() compared with the least fixed point computed on the set model after every other operation and every removal.",
    "assumptions": ["the set model in harness/src/props/store_io.rs (labels -> id given at creation, set of attack pairs) implements the specified semantics", "only public observables are compared; internal index vectors are not inspected"],
    "thresholds": {
        "quick": {"evaluations": 500000, "distinct_nontrivial": 10000,
                  "counters": {"coverage/re-inserted-label": 5000, "coverage/removed-argument-with-self-in-and-out-attacks": 200,
                               "ops/-arg/Invalid": 1000, "ops/-att/Invalid": 1000, "ops/+att/Invalid": 1000, "ops/+arg/Redundant": 1000, "ops/+att/Redundant": 1000}},
        "thorough": {"evaluations": 20000000, "distinct_nontrivial": 400000, "counters": {}},
    },
}
PROPS["C13"] = {
    "level": "exploration",
    "rule": "cases = byte strings in three classes per format: (i) grammar-generated unarguably well-formed texts (comments, blank lines, CRLF, missing final newline, surrounding spaces, duplicates, n=0) which must be accepted and equal the reference parser's framework; (ii) texts ill-formed in one of the listed categories which must be rejected; (iii) 1-4 byte/token/line corruptions of class-(i) texts (hostile alphabet incl. non-UTF-8, signs, huge numbers) which must not panic and must agree with the strict reference parser whenever it accepts or rejects for a listed reason (acceptance of texts the reference rejects for an unlisted reason is counted as 'lenient', not judged). Also read_arg_from_str against label / 1-based index lookup and `crustabri check` exit status against the library on a sample. Non-trivial: accepted with at least one attack, or rejected for a listed category; distinct = hash of the bytes + format.",
    "assumptions": ["the two strict reference parsers in harness/src/props/store_io.rs written from the format descriptions", "the property's list of ill-formedness categories is taken as exhaustive; declared sizes are capped at 100000"],
    "thresholds": {
        "quick": {"evaluations": 300000, "distinct_nontrivial": 100000,
                  "counters": {"agreed-accept/apx": 20000, "agreed-accept/iccma23": 20000, "cli_check_runs": 500,
                               "rejected/iccma23/content-after-blank-line": 1000, "rejected/iccma23/index-out-of-range": 1000,
                               "rejected/apx/undeclared-argument": 1000, "rejected/apx/arg-after-att": 300,
                               "rejected-unlisted/iccma23/not-utf8": 200, "rejected-unlisted/apx/not-utf8": 200, "rejected/iccma23/undecodable-byte-in-attack-line": 50}},
        "thorough": {"evaluations": 10000000, "distinct_nontrivial": 3000000, "counters": {}},
    },
}
PROPS["C14"] = {
    "level": "exploration",
    "rule": "cases = (a) frameworks produced by store histories over identifier labels (so tombstoned arguments/attacks exist), written by AspartixWriter::write_framework through a Vec and through a one-byte-per-call writer, parsed by the independent reference parser AND read back by AspartixReader: labels in order and attack set must be equal; (b) random sub-lists (incl. empty) of usize / identifier labels through both ResponseWriters, parsed by independent grammar parsers for `w( label)*\\n` and `[l(,l)*]\\n`; status lines must be exactly YES\\n / NO\\n. Non-trivial: framework whose history has removals and at least one attack, or extension of >= 2 labels; distinct = hash of the bytes written.",
    "assumptions": ["the answer-grammar parsers and the Aspartix reference parser of the harness"],
    "thresholds": {
        "quick": {"evaluations": 150000, "distinct_nontrivial": 10000,
                  "counters": {"frameworks_round_tripped": 10000, "extensions_checked/apx": 10000, "extensions_checked/iccma": 10000, "status_lines_checked": 50000}},
        "thorough": {"evaluations": 4000000, "distinct_nontrivial": 200000, "counters": {}},
    },
}
MANIFEST_TEXT["C12"] = {
    "level_text": "History checking of the real store against an executable set model with a full comparison of every public observable after every single operation; violating histories are minimised. The right level because the property is a refinement statement over all histories and every divergence becomes observable at the API.",
    "design_ref": "DESIGN.md section 5, C12", "level_note": "Trusted: the set model; only public observables compared. Held on the histories generated.",
    "technique": "runtime monitoring: history + executable set model, snapshot comparison after every operation",
}
MANIFEST_TEXT["C13"] = {
    "level_text": "Differential monitoring of both readers against two strict reference parsers over grammar-generated, deliberately ill-formed and corrupted inputs; panics are caught per input; the CLI `check` command's exit status is compared with the library on a sample.",
    "design_ref": "DESIGN.md section 5, C13", "level_note": "Trusted: the reference parsers; the list of ill-formedness categories in the property is taken as exhaustive (other leniencies are counted, not judged).",
    "technique": "runtime monitoring: reference parsers over generated and corrupted byte strings",
}
MANIFEST_TEXT["C14"] = {
    "level_text": "Round-trip monitoring: everything the writers emit is parsed by independent grammar parsers (and by the repository's reader for frameworks) and compared with the object written, including short-write sinks.",
    "design_ref": "DESIGN.md section 5, C14", "level_note": "Trusted: the grammar parsers of the harness. Labels restricted to valid Aspartix identifiers / usize as the property states.",
    "technique": "runtime monitoring: round-trip through independent parsers",
}
NOT_APPLICABLE[:] = [e for e in NOT_APPLICABLE if e["property_id"] not in ("C12", "C13", "C14")]

PROPS["C15"] = {
    "level": "exploration",
    "rule": "cases = incremental histories of add_clause (length 0-5, units, duplicate literals, tautologies, rare empty clause) / reserve (below, at, above the current count) / solve / solve_under_assumptions (1-4 literals incl. contradictory pairs and variables never seen in a clause or reservation) over 1-12 variables, plus pigeonhole 3->2 and implication chains, on CadicalSolver, ExternalSatSolver->msat (strict monitor solver) and ExternalSatSolver->kissat; every verdict is compared with a truth table over the recorded clause list, every model with all clauses and assumptions and with n_vars(); n_vars monotone and >= declared variables; an external backend that stays undecided where the reference decides is a disagreement between backends. In addition the contract is asserted by the SAT-boundary monitor on real argumentation queries per backend. Non-trivial: history with >= 2 solve calls; distinct = hash of (backend, operation list).",
    "assumptions": ["truth-table / DPLL reference of harness/src/dpll.rs", "kissat (installed) and msat (harness, CaDiCaL-backed, strict DIMACS validation) stand for 'an external DIMACS solver'"],
    "thresholds": {
        "quick": {"evaluations": 200000, "distinct_nontrivial": 5000,
                  "counters": {"histories/cadical": 5000, "histories/ext:msat": 500, "histories/ext:kissat:-q": 300,
                               "coverage/assumption-on-unseen-variable/ext:msat": 200, "coverage/assumption-on-unseen-variable/ext:kissat": 100,
                               "real_stream_sat_calls/ext:msat": 300}},
        "thorough": {"evaluations": 5000000, "distinct_nontrivial": 100000, "counters": {}},
    },
}
PROPS["C16"] = {
    "level": "exploration",
    "rule": "cases = (a) every DIMACS instance sent to the strict monitor solver msat by real argumentation queries (all non-grounded problems, selectable encoders, with/without certificate, 1-2 arguments) on frameworks of <= 8 arguments: header variable count >= every variable, exact clause count, no syntax error (msat's log is checked after every query); (b) direct ExternalSatSolver calls run in a sub-process on unique-model / contradictory CNFs with reply volumes 0, 1 KiB, 60-70 KiB in 1 KiB steps, 256 KiB, 4 MiB of comments before or after the verdict, models of 15-22k variables, requests above 64 KiB, v-line splits 1/10/all, CRLF; (c) child-side schedules early-out / slow-read / no-read / close-stdout-early; (d) ten malformed-reply kinds. A call that does not return within the watchdog is a violation only with a /proc deadlock witness (parent in wait4, child blocked writing to the pipe, no I/O progress), else inconclusive. Non-trivial: exchange bucket x size x options, or query with >= 2 SAT calls; distinct by hash. The exit status of the solver process is a parameter (10/20 convention or fixed values) on nearly half of the exchanges; two malformed replies are not UTF-8 (garbage line; value line torn by a stray byte).",
    "assumptions": ["msat validates DIMACS strictly and answers honestly unless told otherwise; kissat not used here", "the schedule of the feeder thread is steered only from the child side (read/write order, delays)", "Linux pipe capacity 64 KiB"],
    "thresholds": {
        "quick": {"evaluations": 10000, "distinct_nontrivial": 3000,
                  "counters": {"dimacs_instances_validated": 20000, "exchange/*": 1200, "exchange/volume/pad60-70KiB": 100,
                               "exchange/volume/pad>512KiB": 30, "exchange_ok/sat": 200, "exchange_ok/unsat": 80,
                               "request_bytes/>64KiB": 20}},
        "thorough": {"evaluations": 200000, "distinct_nontrivial": 50000, "counters": {}},
    },
}
PROPS["C17"] = {
    "level": "fault_enumeration",
    "rule": "cases = (framework, problem, encoder, query, fault kind, SAT-call position j): the query is first run fault-free to learn its number k of SAT calls, then re-run once per position j in 1..k (all of them up to 60) with `Unknown` injected by the SAT-boundary monitor; for the external path msat misbehaves at invocation j (exit-silent, status-only, truncated-model, cut mid-number, garbage line, unknown status, wrong variable, double status, crash mid-output, non-zero exit) for static solvers and the CLI (`crustabri solve --external-sat-solver msat`); dynamic solvers on 10-step histories. A run in which the injected position was not reached is inconclusive. Non-trivial: k >= 2 and j >= 2 (failure inside an enumeration loop); distinct = hash of (graph, problem, encoder, query, kind, j). One CLI instance file in seven is 1-3 MiB; half of the external faults come with a solver-like exit status (10/20).",
    "assumptions": ["a query that unwinds (panic) or a process that exits non-zero without an answer-shaped stdout line counts as aborted", "fault positions are enumerated per case, cases are sampled"],
    "thresholds": {
        "quick": {"evaluations": 30000, "distinct_nontrivial": 10000,
                  "counters": {"injected/in-process/*": 20000, "injected/external/*": 1500, "injected/dynamic/*": 3000, "injected/cli/*": 100,
                               "injected/external/truncated-model": 100, "injected/external/crash": 100}},
        "thorough": {"evaluations": 800000, "distinct_nontrivial": 200000, "counters": {}},
    },
}
MANIFEST_TEXT["C15"] = {
    "level_text": "History checking of SatSolver objects against an independent truth-table/DPLL reference over the recorded clause list, for the embedded and two external backends, plus the same contract asserted on the real call streams of argumentation queries by the monitor that wraps every solver.",
    "design_ref": "DESIGN.md section 5, C15", "level_note": "Trusted: harness DPLL/truth table; kissat and msat as external solvers. Memcheck on the FFI path is run separately in the thorough tier when enabled.",
    "technique": "runtime monitoring: history + truth-table reference, SAT-boundary monitor on real call streams",
}
MANIFEST_TEXT["C16"] = {
    "level_text": "Process-boundary monitoring: a strict monitor solver logs and validates every instance it is sent (offline check of the log after each query); reply volume, line splits, schedules and malformed replies are swept from the child side; non-returning calls are decided by a structural /proc deadlock witness, not by a timeout.",
    "design_ref": "DESIGN.md section 5, C16", "level_note": "Trusted: msat's validator; /proc syscall/wchan/io sampling for the witness. Feeder-thread schedules only as far as the child's behaviour steers them.",
    "technique": "runtime monitoring: monitor external solver (log checker), volume/schedule sweep, deadlock witness from /proc",
}
MANIFEST_TEXT["C17"] = {
    "level_text": "Fault enumeration over every SAT-call position of a query (learned from a fault-free run) with Unknown injected in-process, and over ten failure kinds of an external solver process at each invocation; the oracle is 'returned vs unwound' (library) and 'exit status + answer-shaped stdout' (CLI).",
    "design_ref": "DESIGN.md section 5, C17", "level_note": "Trusted: the monitor's call counter identifies positions; determinism of the call sequence between the fault-free and the faulty run (runs whose position is not reached are inconclusive).",
    "technique": "runtime monitoring: fault injection at each SAT-call position, external-solver failure kinds",
}
NOT_APPLICABLE[:] = [e for e in NOT_APPLICABLE if e["property_id"] not in ("C15", "C16", "C17")]

PROPS["C10"] = {
    "level": "translation_validation",
    "rule": "programs = the CNFs actually emitted by each encoder (aux_var cf/adm/complete, exp cf/complete, hybrid, stable; plain and with range variables) into a recording SatSolver, for frameworks with compact ids built through both readers (incl. permuted and repeated attack lines), new_with_labels and the plain API: all digraphs on <= 3 (thorough: 4) arguments, random graphs n <= 9, lattice/dense shapes, shared-defender shapes with defender-set products 30/32/33/36/64 (both sides of the hybrid threshold, n <= 16). Each CNF is validated exhaustively: for EVERY subset S of the arguments, CNF + (argument literals fixed to S) is satisfiable (independent DPLL) iff S is in the intended family (brute-force oracle); with range: a model with r = range(S) exists and no model has r_a true outside range(S); arg_to_lit positive, injective, within n_vars, outside the range block; assignment_to_extension decodes exactly S and ignores auxiliary/range variables. Non-trivial: the family differs from the power set and from {empty set}; distinct = hash of (graph, presentation kind, encoder). Also fan-in frameworks (arguments with 31-40 attackers next to defender-set products of 32 and more) and huge-product frameworks (65 536 - 390 625 product clauses of the exp encoder), judged by the SAT-based oracle.",
    "assumptions": ["the harness DPLL decides each restricted CNF (cross-checked with a truth table in its unit test)", "brute-force families (conflict-free, admissible, complete, stable) of harness/src/refsem.rs", "compact-id frameworks from the readers stand in for the solvers' crate-private component extraction (same construction: ids 0..n, attacks inserted by id, duplicates kept); CNFs of real extracted components are additionally validated model-by-model by the SAT-boundary monitor in C01-C04"],
    "coverage_extra": lambda a: {"programs": a["counters"].get("cnfs_validated", 0),
                                 "disagreements_checked": a["evaluations"],
                                 "exhaustive": False},
    "thresholds": {
        "quick": {"evaluations": 1000000, "distinct_nontrivial": 20000,
                  "counters": {"cnfs_validated": 50000, "hybrid/arguments-on-both-sides-of-threshold": 500,
                               "cnfs/hybrid+range": 3000, "cnfs/exp-co+range": 3000, "cnfs/stable": 3000}},
        "thorough": {"evaluations": 50000000, "distinct_nontrivial": 500000, "counters": {}},
    },
}
MANIFEST_TEXT["C10"] = {
    "level_text": "Translation validation of the encoder output: each emitted CNF (the 'program') is captured through the public ConstraintsEncoder/SatSolver traits and compared, subset by subset and exhaustively per CNF, with the family it is meant to characterise; model-set growth (a dropped direction of an equivalence), which end-to-end queries cannot see, is detected here.",
    "design_ref": "DESIGN.md section 5, C10", "level_note": "Trusted: harness DPLL and brute-force families. Exhaustive per CNF, sampled over frameworks (exhaustive for all digraphs on <= 3/4 arguments).",
    "technique": "runtime monitoring of the encoder's real output: captured CNF validated against reference families by exhaustive restricted satisfiability",
}
NOT_APPLICABLE[:] = [e for e in NOT_APPLICABLE if e["property_id"] not in ("C10",)]

PROPS["C18"] = {
    "level": "exploration",
    "rule": "cases = (framework, problem, encoder, query): the SAT-boundary monitor counts every solve call of the query and compares the total with the property's bound summed over the weakly connected components (PR <= |base|+|PR|+1 with base = complete sets, admissible sets for SE-PR with the admissibility encoder; ID <= 2|CO|+|PR|+2; SST <= (n+2)|CO|+3; STG <= (n+2)|CF|+3; CO, ST <= 2), the families being computed by brute force. The monitor stops a query at 10 x bound + 64 calls (non-termination decided on logical steps). On connected frameworks two finer monitors run on the recorded call stream: within one PR/ID search (same negated selector) no two satisfiable calls return the same set on the argument variables; in a range search every growth call's model has a strictly larger set of true range variables than the one assumed. The dynamic preferred solver is checked on 12-step histories. Frameworks: all digraphs on 3 arguments, connected random graphs n <= 10, lattice shapes with many incomparable extensions, dense shapes, unions (summed form). Non-trivial: the query made >= 3 SAT calls; distinct = hash of (graph, problem, encoder, query).",
    "assumptions": ["brute-force families per component (harness/src/refsem.rs)", "the selector of a search is the only negative assumption literal outside the argument and range variable blocks (derived from the public arg_to_lit / first_range_var)", "'every query terminates' is restated as bounded progress: the cap at 10 x bound + 64 SAT calls; wall-clock plays no role"],
    "thresholds": {
        "quick": {"evaluations": 200000, "distinct_nontrivial": 30000,
                  "counters": {"searches_with_at_least_5_calls": 10000, "candidates_checked_for_repetition": 50000,
                               "range_growth_steps_checked": 30000, "queries/dynamic-DS-PR": 5000, "queries/DS-PR": 5000, "queries/SE-ID": 3000}},
        "thorough": {"evaluations": 4000000, "distinct_nontrivial": 500000, "counters": {}},
    },
}
PROPS["C19"] = {
    "level": "exploration",
    "rule": "cases = frameworks with compact ids built through both readers (incl. repeated attack lines) and new_with_labels: all digraphs on <= 3 (thorough: 4) arguments, random graphs n <= 10, rings and paths of every length 2-9 with tails, lattice shapes, unions, duplicate-attack texts, and 20-100 argument graphs. For each: both mappings are total and inverse at class level, classes partition the arguments, merged arguments are never separated by a complete extension (all complete extensions by brute force for n <= 14; two SAT queries per merged pair with the independent reference encoding beyond), grounded arguments share a class, arguments defeated by the grounded extension share a class. Non-trivial: something was merged AND the framework has >= 2 complete extensions (or is a big graph with a merge); distinct = hash of (graph, presentation kind).",
    "assumptions": ["brute-force complete extensions / independent CaDiCaL complete-labelling encoding of the harness"],
    "thresholds": {
        "quick": {"evaluations": 80000, "distinct_nontrivial": 8000,
                  "counters": {"cases/something-merged": 30000, "cases/merged-with-several-complete-extensions": 5000, "cases/big-merged": 500, "refsat_pair_checks": 5000}},
        "thorough": {"evaluations": 1200000, "distinct_nontrivial": 100000, "counters": {}},
    },
}
MANIFEST_TEXT["C18"] = {
    "level_text": "Online counting monitor at the SAT boundary: every query's number of solver calls is compared with a bound derived from brute-force families; a per-query call cap decides non-termination on logical steps; recorded call streams are checked for repeated candidates (PR/ID) and non-growing ranges (SST/STG).",
    "design_ref": "DESIGN.md section 5, C18", "level_note": "Trusted: brute-force families, the monitor's counter. Unbounded termination is out of reach for runtime monitoring and is restated as bounded progress.",
    "technique": "runtime monitoring: SAT-call counting monitor with cap, trace checks on recorded call streams",
}
MANIFEST_TEXT["C19"] = {
    "level_text": "Reference-model monitoring of EquivalencyComputer: classes reconstructed through the two public mappings are checked for partition/inverse laws and against all complete extensions (brute force) or pairwise SAT separation queries (20-100 arguments).",
    "design_ref": "DESIGN.md section 5, C19", "level_note": "Trusted: brute-force complete extensions and the independent reference encoding.",
    "technique": "runtime monitoring: reference-model oracle (complete extensions) on generated frameworks",
}
NOT_APPLICABLE[:] = [e for e in NOT_APPLICABLE if e["property_id"] not in ("C18", "C19")]

PROPS["C06"] = {
    "level": "exploration",
    "rule": "cases = (framework, problem, query) evaluated under a lattice of configurations: every selectable encoder x {embedded CaDiCaL, harness DPLL backend, ExternalSatSolver->msat, ExternalSatSolver->kissat} x {with, without certificate}, as a star around the reference configuration plus random combinations; all statuses (for SE: extension / no extension) must be equal to each other and to the oracle. One solver object per type receives a random sequence with repetitions of SE/DC/DS queries with and without certificate and each answer is compared with a fresh object's; the framework's public observables are compared before and after all queries. A subset goes through `crustabri solve --encoding X --external-sat-solver Y [-c]`. Non-trivial: the reference run needed >= 2 SAT calls or the framework has >= 2 components, or a query sequence of length >= 4; distinct = hash of (graph, presentation kind, problem, query | sequence). CLI sweep: on frameworks of at most six arguments every acceptance problem x every argument under {embedded, msat, kissat} x {status only, -c}.",
    "assumptions": ORACLE_ASSUMPTIONS + ["external backends: msat (strict, CaDiCaL-backed) and kissat; a third, pure-Rust DPLL backend of the harness widens the differential"],
    "thresholds": {
        "quick": {"evaluations": 200000, "distinct_nontrivial": 20000,
                  "counters": {"configurations/encoding": 30000, "configurations/backend": 30000, "configurations/certificate": 20000,
                               "backend_runs/ext:msat": 1500, "backend_runs/ext:kissat:-q": 1500, "backend_runs/dpll": 30000,
                               "order/queries-on-reused-object": 50000, "framework_snapshots_compared": 1000, "cli_runs": 500}},
        "thorough": {"evaluations": 5000000, "distinct_nontrivial": 400000, "counters": {}},
    },
}
MANIFEST_TEXT["C06"] = {
    "level_text": "Differential monitoring across the configuration lattice (encoder x backend x certificate flag) with the brute-force oracle as tie-breaker against common-mode errors, history checking of reused solver objects against fresh ones, and a before/after snapshot of the framework's public observables.",
    "design_ref": "DESIGN.md section 5, C06", "level_note": _STATIC_NOTE,
    "technique": "runtime monitoring: differential across configurations and query orders, reference oracle, state snapshot",
}
NOT_APPLICABLE[:] = [e for e in NOT_APPLICABLE if e["property_id"] not in ("C06",)]

PROPS["C11"] = {
    "level": "exploration",
    "rule": "cases = base frameworks of 20-300 arguments (connected sparse graphs with planted symmetric pairs, rings and hubs; unions of small components; chains, rings, ladders, complete bipartite graphs) plus small random ones, 8 sampled arguments each, all DC/DS problems as `crustabri solve` dispatches them (default or a random selectable encoder). Metamorphic relations, no ground truth needed: statuses are equal on (a) a renamed and re-ordered presentation (Aspartix reader / API), (b) permuted and (c) repeated attack lines, (d) the disjoint union with an unrelated component that has a stable extension (unchanged) or has none (under ST everything skeptically, nothing credulously accepted; other semantics unchanged), (e) after that component is removed again through remove_argument (sparse ids); cross-semantics relations on one framework (SE-GR within SE-ID within the returned PR extension, DC-CO = DC-PR, DS-CO = membership in SE-GR, skeptical implies credulous when an extension exists, ST = SST = STG whenever SE-ST finds an extension, ideal implies skeptically preferred); where an exact oracle exists at that size (composition) it is applied too; 10% of the bases also through the binaries on transformed files. A pair in which a query hit the SAT-call cap is skipped and counted inconclusive. Non-trivial: a (base, transformation) pair with at least one compared status; distinct = hash of (graph, transformation).",
    "assumptions": ["metamorphic relations follow from the definitions (statuses depend only on the attack graph; all seven semantics are decomposable over weakly connected components)", "composition oracle where components are small"],
    "thresholds": {
        "quick": {"evaluations": 300000, "distinct_nontrivial": 4000,
                  "counters": {"status_pairs_compared": 300000, "transformations/component-added-then-removed": 700,
                               "transformations/union-with-component-without-stable-extension": 700,
                               "relations_checked/ST-SST-STG-coincide-when-a-stable-extension-exists": 5000,
                               "relations_checked/no-stable-extension-convention": 500, "relations_checked/SE-ID-within-returned-PR-extension": 700,
                               "bases/big-conn": 300, "cli_pairs_compared": 200}},
        "thorough": {"evaluations": 6000000, "distinct_nontrivial": 80000, "counters": {}},
    },
}
MANIFEST_TEXT["C11"] = {
    "level_text": "Metamorphic monitoring on inputs far beyond exhaustive reference computation: status vectors of a base framework are compared with those of status-preserving transformations of it, and cross-semantics relations are asserted on each framework; this reaches size-dependent index arithmetic (range-variable offsets, component re-indexing) that small-scope oracles cannot.",
    "design_ref": "DESIGN.md section 5, C11", "level_note": "Trusted: the relations themselves; second-level queries run under a SAT-call cap (skipped pairs are inconclusive).",
    "technique": "runtime monitoring: metamorphic relations over transformed presentations and disjoint unions, 20-300 arguments",
}
NOT_APPLICABLE[:] = [e for e in NOT_APPLICABLE if e["property_id"] not in ("C11",)]

PROPS["C05"] = {
    "level": "exploration",
    "rule": "cases = real process runs of `crustabri solve` and of the ICCMA'23 wrapper. Success path: generated instance files in both formats (comments, CRLF, duplicate declarations, surrounding spaces, Aspartix names different from ranks, n = 0) x all 21 problems (random letter case) x arguments x {reader flag, --encoding none/aux_var/exp/hybrid, -c / --with-certificate, --logging-level off/info}: exit status 0, stdout (log lines starting with `![` removed when logging is on) exactly the status line and/or one witness line in the writer's grammar, status equal to the brute-force oracle, witness a valid extension with respect to the argument. Error path: 20 kinds of malformed invocation (missing -f/-p, missing/unreadable file, directory, ill-formed file of each listed category, unknown or garbled problem strings, DC/DS without -a, unknown / 0 / n+1 / non-numeric / empty argument, unknown option, bad reader, bad encoding, wrong reader for the file, unknown sub-command): non-zero exit status and no answer-shaped stdout line. `problems` / `--problems`: exactly the 21 problems, each accepted in any letter case, unlisted strings rejected. Non-trivial: an instance with an argument that is credulously but not skeptically accepted or without stable extension; or a distinct (binary, error kind, arguments) error run; distinct by hash. Also: one run in five with --external-sat-solver (msat / kissat -q); problem strings that only look like a listed problem (Unicode case mappings, compatibility forms, look-alikes, other dashes) must be rejected; instance paths through `.`, `sub/..` and a symbolic link to a directory followed by `..` (with a decoy at the lexical location); witness lines of 3 000 - 13 000 arguments in both formats.",
    "assumptions": ["brute-force oracle on the file's abstract framework (n <= 9)", "answer-shaped line = ^(YES|NO|w( \\S+)*|\\[[^\\]]*\\])$; `-h`, no argument at all (authors), a superfluous -a for SE problems and --encoding on GR/ST are documented non-errors and are not in the error matrix", "the binaries are the plain `cargo build --release` of /repo's working tree"],
    "thresholds": {
        "quick": {"evaluations": 8000, "distinct_nontrivial": 500,
                  "counters": {"success_runs/crustabri/SE": 800, "success_runs/crustabri/DC": 1500, "success_runs/crustabri/DS": 1500,
                               "success_runs/crustabri_iccma23/DC": 500, "success_runs/logging-on": 400,
                               "error_runs/crustabri/unknown-argument": 200, "error_runs/crustabri/ill-formed-file": 100,
                               "error_runs/crustabri_iccma23/unknown-argument": 40, "problems_listings_checked": 10, "listed_problems_tried": 200}},
        "thorough": {"evaluations": 250000, "distinct_nontrivial": 10000, "counters": {}},
    },
}
MANIFEST_TEXT["C05"] = {
    "level_text": "Process-boundary monitoring: the two binaries are run as real processes on generated instance files and malformed invocations; exit status and stdout are compared with what the semantics (brute-force oracle) and the competition format dictate, byte-exact for the status lines and by grammar + validity for witnesses.",
    "design_ref": "DESIGN.md section 5, C05", "level_note": "Trusted: oracle, answer grammar. Each run costs ~50 ms (process start), so the quick tier samples problems x options rather than the full product.",
    "technique": "runtime monitoring: CLI transcripts (exit status, stdout) against reference semantics and an error matrix",
}
NOT_APPLICABLE[:] = [e for e in NOT_APPLICABLE if e["property_id"] not in ("C05",)]

PROPS["C12"]["aux"] = ["miri"]
PROPS["C13"]["aux"] = ["miri"]
PROPS["C15"]["aux"] = ["memcheck"]
PROPS["C16"]["aux"] = ["memcheck"]

# Quick-tier minimum-observation thresholds: a quarter of the minimum observed on the unchanged
# tree over seeds 1-3 (tools/calibrate.py), kept in thresholds_quick.json.
import json as _json
import os as _os
_cal = _os.path.join(_os.path.dirname(_os.path.abspath(__file__)), "thresholds_quick.json")
if _os.path.exists(_cal):
    for _pid, _t in _json.load(open(_cal)).items():
        if _pid in PROPS:
            PROPS[_pid]["thresholds"]["quick"] = _t

# Thorough-tier thresholds: the hand-set figures above are what an idle 16-core machine observes within the
# 1500 s budget; a run is accepted from an eighth of that (a slower or shared machine: the thorough workloads are
# cut by the time budget), and never from less than the quick tier's own minimum.
for _pid in PROPS:
    _th = PROPS[_pid]["thresholds"]["thorough"]
    _q = PROPS[_pid]["thresholds"]["quick"]
    _th["evaluations"] = max(_q.get("evaluations", 1), _th.get("evaluations", 1) // 8)
    _th["distinct_nontrivial"] = max(_q.get("distinct_nontrivial", 1), _th.get("distinct_nontrivial", 1) // 8)
    _th["counters"] = {k: max(1, v // 8) for k, v in _th.get("counters", {}).items()}

# inconclusive reasons that must stay rare: more than this many turns the run into INCONCLUSIVE (exit 2)
PROPS["C16"]["max_inconclusive"] = {"call-stuck-without-deadlock-witness": 0}
PROPS["C05"]["max_inconclusive"] = {"cli-run-stopped-by-watchdog": 0}
PROPS["C18"]["max_inconclusive"] = {"cli-run-failed-or-timed-out": 0}
